"""C11  Miner damage is linear and agrees with the predicted Gassner lifetime."""
import itertools

import numpy as np
import pandas as pd

import pylife.materiallaws.woehlercurve as WC
import pylife.strength.miner as MI
import pylife.strength.solidity as SOL
import pylife.strength.fatigue as FA
import pylife.stress.collective  # noqa: F401  (registers the accessors)

from ..sym import sym_and, sym_or, sym_not, SymReal, s_ite, Unsupported
from ..util import eq_struct, mutated
from .. import npfacade

PROPERTY = "C11"
ENCODED = ["pylife.strength.fatigue:Fatigue.damage",
           "pylife.strength.miner:MinerBase.gassner_cycles", "pylife.strength.miner:MinerBase.effective_damage_sum",
           "pylife.strength.miner:MinerElementary.lifetime_multiple", "pylife.strength.miner:MinerElementary.gassner",
           "pylife.strength.miner:MinerHaibach.lifetime_multiple", "pylife.strength.miner:effective_damage_sum",
           "pylife.strength.solidity:haibach",
           "pylife.materiallaws.woehlercurve:WoehlerCurve.basquin_cycles",
           "pylife.materiallaws.woehlercurve:WoehlerCurve._make_k",
           "pylife.materiallaws.woehlercurve:WoehlerCurve.transform_to_failure_probability",
           "pylife.materiallaws.woehlercurve:WoehlerCurve.miner_elementary",
           "pylife.materiallaws.woehlercurve:WoehlerCurve.miner_haibach",
           "pylife.stress.collective.load_collective:LoadCollective.amplitude",
           "pylife.stress.collective.load_collective:LoadCollective.cycles"]
STUBS = ["np facade in pylife.materiallaws.woehlercurve and pylife.strength.miner (asarray/full_like keep object dtype, "
         "isfinite/power element-wise); x**(1/4) in effective_damage_sum is an arbitrary positive real (over-approximation)"]
ASSUMPTIONS = ["floats are modelled as reals", "slope k_1 is a concrete integer from {3, 4, 5} so that x**k is a polynomial; "
               "SD, ND > 0, amplitudes > 0 and cycle counts >= 0 (zero allowed) are symbolic",
               "failure probability 0.5 and TN = TS = 1, plus two concrete (TN, TS, failure probability) sets for the Gassner clause",
               "the collective is a LoadCollective DataFrame (range/mean/cycles); histogram collectives need concrete class mids"]
OUTSIDE = "non-integer slopes; more classes than the bound; IntervalIndex histograms; float rounding"
RULE = ("one evaluation = one explored path (position of every amplitude relative to SD, order of amplitudes, which "
        "counts are zero); distinct = distinct (clause, k, classes, path signature); non-trivial = at least one class "
        "with positive count above and below... (any occupied class)")
LABELS = ["additive", "proportional", "order_independent", "original<=haibach<=elementary", "gassner_elementary",
          "gassner_haibach", "effective_damage_sum_range"]
RTOL = 1e-9
ATOL = 1e-12


def bounds(tier):
    return {"classes": "1..3 (quick); thorough: 1..4 for k_1 = 3 (Gassner elementary 1..3), 1..3 for k_1 = 4, 5", "k_1": [3, 5] if tier == "quick" else [3, 4, 5],
            "gassner_classes": "1..%d" % (3 if tier == "quick" else 4)}


def options(tier):
    return {"timeout_ms": 20000 if tier == "quick" else 60000, "task_budget_s": 600 if tier == "quick" else 2400}


def prepare(tier):
    npfacade.selftest()


def cases(tier):
    q = tier == "quick"
    out = []
    ks = [3, 5] if q else [3, 4, 5]
    for k in ks:
        mmax = 3 if (q or k > 3) else 4        # four classes only for k = 3 (degree of the rational functions)
        for m in range(1, mmax + 1):
            out.append({"kind": "linear", "k": k, "m": m, "_weight": 3 ** m, "_split": 4 if m >= 4 else None})
        for m in range(1, mmax + 1):
            for rule in ("elementary", "haibach"):
                if m == 4 and rule == "elementary":
                    continue        # (the solidity expressions of four symbolic classes cost ~1.6 s per path in term normalisation)
                c = {"kind": "gassner", "rule": rule, "k": k, "m": m, "_weight": 6 ** m}
                if m >= 3:
                    c["_split"] = 4 if m == 3 else 7
                out.append(c)
        # curves given for another failure probability, with scatter (damage is evaluated at 50 %)
        for m in (1, 2):
            for rule in ("elementary", "haibach"):
                for scatter in ([4.0, 1.25, 0.1], [3.0, 1.0, 0.9]):
                    out.append({"kind": "gassner", "rule": rule, "k": k, "m": m, "scatter": scatter, "_weight": 6 ** m})
        out.append({"kind": "eff", "k": k, "m": 2, "_weight": 5})
    for c in out:
        if c.get("_split") is None:
            c.pop("_split", None)
    return out


def _apply_canary(ctx):
    cn = ctx.canary
    if cn == "damage_uses_amplitude_twice":
        ctx.patch(FA.Fatigue, "damage", mutated(FA.Fatigue.damage, "load_collective.cycles / cycles", "load_collective.cycles / cycles + 0 * cycles if False else load_collective.cycles.cumsum() / cycles"))
    elif cn == "haibach_exponent":
        ctx.patch(MI.MinerHaibach, "lifetime_multiple",
                  mutated(MI.MinerHaibach.lifetime_multiple, "(s_reduced_damage**(2 * self.k_1 - 1))", "(s_reduced_damage**(2 * self.k_1 - 2))"))
    elif cn == "solidity_mean_not_sum":
        ctx.patch(SOL, "haibach", mutated(SOL.haibach, "V = np.sum((hi * (xi**k)) / hi.sum())", "V = np.sum((hi * (xi**k)) / hi.max())"))
    elif cn is not None:
        raise RuntimeError("unknown canary " + cn)


CANARIES = [
    {"name": "haibach_exponent", "cases": [{"kind": "gassner", "rule": "haibach", "k": 3, "m": 2}]},
    {"name": "solidity_mean_not_sum", "cases": [{"kind": "gassner", "rule": "elementary", "k": 3, "m": 2}]},
    {"name": "damage_uses_amplitude_twice", "cases": [{"kind": "linear", "k": 3, "m": 2}]},
]
QUICK_CANARIES = 3


def _col(ctx, vals):
    return np.array(vals, dtype=object if ctx.sym else np.float64)


def _collective(ctx, S, n, index=None):
    df = pd.DataFrame({"range": _col(ctx, [2 * s for s in S]), "mean": _col(ctx, [0.0 * s for s in S]),
                       "cycles": _col(ctx, n)}, index=index)
    return df.load_collective


def _curve(ctx, k1, k2, SD, ND, scatter=None):
    d = {"k_1": float(k1), "k_2": k2, "SD": SD, "ND": ND}
    if scatter is not None:
        d["TN"], d["TS"], d["failure_probability"] = scatter
    return pd.Series(d, dtype=object if ctx.sym else np.float64)


def _sum(xs):
    t = 0
    for x in xs:
        t = x + t
    return t


def run(ctx, case):
    _apply_canary(ctx)
    if ctx.sym:
        ctx.patch(WC, "np", npfacade.FACADE)
        ctx.patch(WC, "pd", npfacade.PD_FACADE)
        ctx.patch(MI, "np", npfacade.FACADE)
        ctx.patch(SOL, "np", npfacade.FACADE)

        def hook(b, e):
            # x ** (1/4) of a positive quantity: an arbitrary positive real (over-approximation; the clause
            # it feeds -- clamping to [0.3, 1] -- must hold for every such value)
            if isinstance(e, float) and e == 0.25:
                r = ctx.eng.fresh_real("root4")
                ctx.eng.define(r > 0)
                return SymReal(r)
            raise Unsupported("power %r ** %r" % (b, e))
        ctx.eng.power_hook = hook
    kind, k, m = case["kind"], case["k"], case["m"]
    SD, ND = ctx.real("SD"), ctx.real("ND")
    ctx.assume(sym_and(SD > 0, ND > 0))
    S = [ctx.real("S%d" % i) for i in range(m)]
    n = [ctx.real("n%d" % i) for i in range(m)]
    for s in S:
        ctx.assume(s > 0)
    for c in n:
        ctx.assume(c >= 0)
    ctx.hint(sym_and(SD <= 8, ND <= 8, *[s <= 16 for s in S], *[c <= 8 for c in n]))

    if kind == "linear":
        curves = {"original": _curve(ctx, k, np.inf, SD, ND), "haibach": _curve(ctx, k, 2.0 * k - 1.0, SD, ND),
                  "elementary": _curve(ctx, k, float(k), SD, ND)}
        coll = _collective(ctx, S, n)
        dam = {name: list(c.fatigue.damage(coll)) for name, c in curves.items()}
        above = [bool(s >= SD) for s in S]
        ctx.signature((kind, k, m, above))
        for name, c in curves.items():
            singles = [list(c.fatigue.damage(_collective(ctx, [S[i]], [n[i]])))[0] for i in range(m)]
            ctx.claim(ctx.close(dam[name], singles), "additive", (name, dam[name], singles))
            # member order: reversed collective
            rev = list(c.fatigue.damage(_collective(ctx, S[::-1], n[::-1])))[::-1]
            ctx.claim(ctx.close(rev, dam[name]), "order_independent", (name, rev, dam[name]))
            # proportional to the counts
            for f in (2.0, 0.5):
                sc = list(c.fatigue.damage(_collective(ctx, S, [f * x for x in n])))
                ctx.claim(ctx.close(sc, [f * d for d in dam[name]]), "proportional", (name, f, sc))
        ctx.claim(sym_and(*[sym_and(o <= h * (1 + 1e-12), h <= e * (1 + 1e-12))
                            for o, h, e in zip(dam["original"], dam["haibach"], dam["elementary"])]),
                  "original<=haibach<=elementary", dam)
        return dam

    if kind == "gassner":
        rule = case["rule"]
        ctx.assume(_sum(n) > 0)
        k2 = float(k) if rule == "elementary" else 2.0 * k - 1.0
        curve = _curve(ctx, k, k2, SD, ND, case.get("scatter"))
        coll = _collective(ctx, S, n)
        acc = curve.gassner_miner_elementary if rule == "elementary" else curve.gassner_miner_haibach
        G = acc.gassner_cycles(coll)
        A = acc.lifetime_multiple(coll)
        tot = _sum(n)
        scaled = _collective(ctx, S, [c * G / tot for c in n])
        D = _sum(list(curve.fatigue.damage(scaled)))
        occupied = [bool(c > 0) for c in n]
        ctx.signature((kind, rule, k, m, occupied, [bool(s >= SD) for s in S]))
        ctx.claim(ctx.close(D, 1.0, 1e-9), "gassner_" + rule, (D, G, A))
        # the predictions are pure functions of curve and collective: asking again (also after the Gassner
        # curve has been requested) gives the same numbers, and the curve passed in is not changed
        if rule == "elementary":
            gcurve = acc.gassner(coll).to_pandas()
            ctx.claim(ctx.close(gcurve["ND"], ND * A if case.get("scatter") is None else gcurve["ND"], 1e-9), "gassner_" + rule, ("Gassner curve ND", gcurve["ND"]))
        G2, A2 = acc.gassner_cycles(coll), acc.lifetime_multiple(coll)
        ctx.claim(ctx.close([G2, A2], [G, A], 1e-9), "gassner_" + rule, ("second call differs", G2, A2))
        ctx.claim(ctx.eq([curve["SD"], curve["ND"]], [SD, ND]), "gassner_" + rule, "curve modified by the call")
        if m >= 2:
            # ... and of the collective's *current* content: the caller's frame edited in place (first class doubled), the same
            # collective and Miner objects asked again == fresh objects on the same data
            n2 = [2 * n[0]] + list(n[1:])
            coll._obj["cycles"] = _col(ctx, n2)
            G3 = acc.gassner_cycles(coll)
            curve_f = _curve(ctx, k, k2, SD, ND, case.get("scatter"))
            acc_f = curve_f.gassner_miner_elementary if rule == "elementary" else curve_f.gassner_miner_haibach
            G3f = acc_f.gassner_cycles(_collective(ctx, S, n2))
            ctx.claim(ctx.close(G3, G3f, 1e-9), "gassner_" + rule, ("stale result after the collective changed", G3, G3f))
        return {"G": G, "A": A, "D": D}

    if kind == "eff":
        ctx.assume(_sum(n) > 0)
        out = {}
        for rule, k2 in (("elementary", float(k)), ("haibach", 2.0 * k - 1.0)):
            curve = _curve(ctx, k, k2, SD, ND)
            coll = _collective(ctx, S, n)
            acc = curve.gassner_miner_elementary if rule == "elementary" else curve.gassner_miner_haibach
            d = acc.effective_damage_sum(coll)
            ctx.claim(sym_and(d >= 0.3, d <= 1.0), "effective_damage_sum_range", (rule, d))
            out[rule] = d
        ctx.signature((kind, k))
        return out if not ctx.sym else None
    raise RuntimeError("unknown kind")
