"""C05  HCM stress-strain bookkeeping matches the guideline procedure, point by point."""
import itertools
import warnings

import numpy as np
import pandas as pd

import pylife.stress.rainflow.fkm_nonlinear as FN
from pylife.stress.rainflow.fkm_nonlinear import FKMNonlinearDetector
from pylife.stress.rainflow.recorders import FKMNonlinearRecorder
import pylife.stress.rainflow.recorders as REC

from ..sym import sym_and, sym_or, sym_not, s_eq, s_min, s_max, SymReal, is_sym
from ..util import eq_struct, mutated
from ..oracles import rainflow as O
from .c04 import junction_regions

PROPERTY = "C05"
ENCODED = ["pylife.stress.rainflow.fkm_nonlinear:FKMNonlinearDetector.process",
           "pylife.stress.rainflow.fkm_nonlinear:FKMNonlinearDetector._perform_hcm_algorithm",
           "pylife.stress.rainflow.fkm_nonlinear:FKMNonlinearDetector._hcm_process_sample",
           "pylife.stress.rainflow.fkm_nonlinear:FKMNonlinearDetector._proceed_on_primary_branch",
           "pylife.stress.rainflow.fkm_nonlinear:FKMNonlinearDetector._proceed_on_secondary_branch",
           "pylife.stress.rainflow.fkm_nonlinear:FKMNonlinearDetector._handle_case_a_i",
           "pylife.stress.rainflow.fkm_nonlinear:FKMNonlinearDetector._handle_case_a_ii",
           "pylife.stress.rainflow.fkm_nonlinear:FKMNonlinearDetector._handle_case_b",
           "pylife.stress.rainflow.fkm_nonlinear:FKMNonlinearDetector._handle_case_c_i",
           "pylife.stress.rainflow.fkm_nonlinear:FKMNonlinearDetector._handle_case_c_ii",
           "pylife.stress.rainflow.fkm_nonlinear:FKMNonlinearDetector._hcm_update_min_max_strain_values",
           "pylife.stress.rainflow.fkm_nonlinear:FKMNonlinearDetector._initialize_epsilon_min_for_hcm_run",
           "pylife.stress.rainflow.recorders:FKMNonlinearRecorder.record_values_fkm_nonlinear",
           "pylife.stress.rainflow.recorders:FKMNonlinearRecorder.collective",
           "pylife.stress.rainflow.recorders:FKMNonlinearRecorder.R",
           "pylife.stress.rainflow.recorders:FKMNonlinearRecorder.S_m",
           "pylife.stress.rainflow.recorders:FKMNonlinearRecorder._get_for_every_node"]
STUBS = ["notch approximation law = odd extensions of uninterpreted functions stress(L), strain(S, L), dstress(dL), "
         "dstrain(dS, dL) applied element-wise (contract stub; the law itself is C06's subject); the oracle calls the same functions"]
ASSUMPTIONS = ["load samples are integers (tolerance comparisons exact); sequences are proper reversal sequences incl. the "
               "start from zero and the junction (everything else is C04's subject)",
               "oracle: scalar implementation of the HCM case analysis a)i, a)ii, b, c)i, c)ii with Memory 1-3, Masing "
               "secondary branches from the reversal point, running strain extremes updated in the direction of travel "
               "(pvx/harness/c05.py hcm_oracle); it was written from the same reading of the guideline as the code",
               "multi-point: load histories proportional with factors from {1/2, 2, 3}, node ids non-contiguous",
               "multi-point with a history fed in several process() calls: any integer samples (no reversal assumption), load "
               "steps numbered consecutively across the calls (a label is not used twice within the fed history), last call "
               "flushed; compared with every point processed alone through the same calls (two runs of the real code, no oracle)",
               "multi-point, both HCM passes on any integer samples with load step labels in any order (descending, unordered), "
               "compared with every point processed alone"]
OUTSIDE = ("sequences longer than the bound; laws that are not functions of the load (path dependent); multi-point histories "
           "fed in several calls that re-use load step labels, other than one block handed over twice with the second call "
           "flushed (see DESIGN.md section 8, observations)")
RULE = ("one evaluation = one explored path (order type of the integer loads and of the law's stress/strain values); "
        "distinct = distinct (case, flags/run pattern of hystereses); non-trivial = at least one recorded hysteresis")
LABELS = ["rows.loads", "rows.stress_strain", "rows.derived", "rows.flags", "rows.LF", "strain_values", "multipoint_equals_single",
          "negation_mirrors"]
RTOL = 1e-9
ATOL = 1e-12
CONCRETE_UF = "analytic"     # concrete replays use an analytic law; witness observations are law independent
COLS_VAL = ["loads_min", "loads_max", "S_min", "S_max", "epsilon_min", "epsilon_max"]


def bounds(tier):
    return {"reversals_per_period": "2, 4 (single point; quick: negation and multi-point with 2 only)",
            "points": "1..2 (quick), 1..3 (thorough); factors 1/2, 2, 3 relative to the first point",
            "chunked_multi_point": "4 samples, every single border, one double border (quick); 4..5 samples, every single border, several double borders (thorough)"}


def options(tier):
    return {"timeout_ms": 10000 if tier == "quick" else 60000}


def cases(tier):
    # proper reversal sequences of the repeated signal have an even number of reversals per period
    q = tier == "quick"
    out = []
    for n in ((2, 4) if q else (2, 4)):
        c = {"kind": "single", "n": n, "_weight": 9 ** n}
        if n >= 4:
            c["_split"] = 7
        out.append(c)
    for n in ((2,) if q else (2, 4)):
        c = {"kind": "negate", "n": n, "_weight": 9 ** n * 2}
        if n >= 4:
            c["_split"] = 8
        out.append(c)
    for n in ((2,) if q else (2, 4)):
        for fac in ([[0.5]] if q else [[0.5], [2.0], [3.0], [2.0, 0.5]]):
            if n == 4 and fac != [0.5]:
                continue
            c = {"kind": "multi", "n": n, "factors": fac, "_weight": 9 ** n * 3}
            c["_split"] = (4 if len(fac) == 1 else 5) if n == 2 else 8
            out.append(c)
    # several points at once, any samples (non-reversals, plateaus), both HCM passes, load step labels in any order
    for steps in (([2, 1, 0],) if q else ([2, 1, 0], [5, 9, 7], [0, 1, 2])):
        out.append({"kind": "multi_chunked", "hcm": True, "n": 3, "steps": steps, "factors": [0.5], "_weight": 9 ** 3, "_split": 5})
    if not q:
        out.append({"kind": "multi_chunked", "hcm": True, "n": 4, "steps": [3, 0, 2, 1], "factors": [0.5], "_weight": 9 ** 4, "_split": 7})
    # the same block (same labels) handed over twice, the second time flushed
    out.append({"kind": "multi_chunked", "twice": True, "n": 3, "factors": [0.5], "_weight": 9 ** 3, "_split": 5})
    # several points at once with load step labels that do not ascend
    out.append({"kind": "multi", "n": 2, "factors": [0.5], "steps": [7, 3], "_weight": 9 ** 2 * 3, "_split": 4})
    if not q:
        out.append({"kind": "multi", "n": 4, "factors": [0.5], "steps": [1, 0, 3, 2], "_weight": 9 ** 4 * 3, "_split": 8})
    # several points at once, history fed in several process() calls: any samples (plateaus, non-reversals, borders anywhere)
    for n in ((4,) if q else (4, 5)):
        for k in (1, 2):
            for cuts in itertools.combinations(range(1, n), k):
                if q and (k == 2 and cuts != (2, 3)):
                    continue
                if n == 5 and k == 2 and cuts not in ((1, 3), (2, 4), (3, 4)):
                    continue
                for fac in ([[0.5]] if (q or n == 5) else [[0.5], [2.0, 0.5]]):
                    out.append({"kind": "multi_chunked", "n": n, "cuts": list(cuts), "factors": fac, "_weight": 9 ** n, "_split": 5 if n == 4 else 7})
    out.append({"kind": "multi_chunked", "n": 5, "cuts": [3], "factors": [0.5], "plateau_at_cut": True, "_weight": 9 ** 4, "_split": 5})
    if q:
        # the part of the four-reversal multi-point family in which a hysteresis is closed by the deferred last reversal
        out.append({"kind": "multi", "n": 4, "factors": [0.5], "only": "deferred_closing", "_weight": 9 ** 3, "_split": 5})
    return out


_AXIOMS = {}


def _tid(v):
    """identity of a plain (non-quotient) symbolic value's term, None if there is none"""
    e = getattr(v, "_e", None)
    return e.get_id() if e is not None else None


class _MonotoneUF:
    """uninterpreted function constrained to be positive and strictly increasing on positive arguments
    (axioms are instantiated for every pair of applications that occur on the path)"""

    def __init__(self, ctx, name, arity):
        self.ctx = ctx
        self.f = ctx.uf(name, arity)
        self.apps = []

    def __call__(self, *args):
        r = self.f(*args)
        if not self.ctx.sym:
            return r
        ax = [r > 0]
        for oargs, orr in self.apps:
            # the same pairs recur in every re-execution of the path prefix: memoise on the hash-consed terms
            key = tuple(_tid(a) for a in oargs) + tuple(_tid(a) for a in args) + (_tid(orr), _tid(r))
            hit = _AXIOMS.get(key) if None not in key else None
            if hit is None:
                le = sym_and(*[a <= b for a, b in zip(oargs, args)])
                ge = sym_and(*[a >= b for a, b in zip(oargs, args)])
                lt = sym_or(*[a < b for a, b in zip(oargs, args)])
                gt = sym_or(*[a > b for a, b in zip(oargs, args)])
                hit = (sym_and(sym_or(sym_not(sym_and(le, lt)), orr < r), sym_or(sym_not(sym_and(ge, gt)), orr > r)), oargs, args, orr, r)
                if None not in key:
                    if len(_AXIOMS) > 200000:
                        _AXIOMS.clear()
                    _AXIOMS[key] = hit
            ax.append(hit[0])
        self.ctx.define(sym_and(*ax))
        self.apps.append((args, r))
        return r


class StubLaw:
    """odd extensions of positive, strictly increasing uninterpreted functions, element-wise on scalars /
    arrays / Series"""
    ramberg_osgood_relation = None

    def __init__(self, ctx):
        self.sym = ctx.sym
        if ctx.sym:
            self.F = _MonotoneUF(ctx, "law_stress", 1)
            self.G = _MonotoneUF(ctx, "law_strain", 2)
            self.DF = _MonotoneUF(ctx, "law_dstress", 1)
            self.DG = _MonotoneUF(ctx, "law_dstrain", 2)
        else:
            # concrete replays: an analytic admissible law (positive, increasing; not a Masing pair on purpose)
            self.F = ctx.uf("law_stress", 1, concrete=lambda L: 1.0 * L + 0.125 * L * L)
            self.G = ctx.uf("law_strain", 2, concrete=lambda S, L: 0.0625 * L + 0.03125 * S + 0.0009765625 * L ** 3)
            self.DF = ctx.uf("law_dstress", 1, concrete=lambda d: 0.75 * d + 0.0625 * d * d)
            self.DG = ctx.uf("law_dstrain", 2, concrete=lambda s_, d: 0.03125 * d + 0.015625 * s_ + 0.000244140625 * d ** 3)

    @staticmethod
    def _odd1(f, x):
        if x > 0:
            return f(x)
        if x < 0:
            return -f(-x)
        return x * 0

    @staticmethod
    def _odd2(f, s, x):
        if x > 0:
            return f(s, x)
        if x < 0:
            return -f(-s, -x)
        return x * 0

    def s_stress(self, L):
        return self._odd1(self.F, L)

    def s_strain(self, S, L):
        return self._odd2(self.G, S, L)

    def s_dstress(self, dL):
        return self._odd1(self.DF, dL)

    def s_dstrain(self, dS, dL):
        return self._odd2(self.DG, dS, dL)

    def _map(self, fn, *args):
        first = args[0]
        if isinstance(first, pd.Series):
            vals = [fn(*vs) for vs in zip(*[list(a) for a in args])]
            return pd.Series(np.array(vals, dtype=object if self.sym else np.float64), index=first.index)
        if isinstance(first, np.ndarray):
            vals = [fn(*vs) for vs in zip(*[list(a) for a in args])]
            return np.array(vals, dtype=object if self.sym else np.float64)
        return fn(*args)

    def stress(self, load, **kw):
        return self._map(self.s_stress, load)

    def strain(self, stress, load):
        return self._map(self.s_strain, stress, load)

    def stress_secondary_branch(self, delta_load, **kw):
        return self._map(self.s_dstress, delta_load)

    def strain_secondary_branch(self, delta_stress, delta_load):
        return self._map(self.s_dstrain, delta_stress, delta_load)


def hcm_oracle(law, reversals_by_pass, tol=1e-12):
    """scalar HCM with stress-strain bookkeeping.  reversals_by_pass: list of lists of loads.
    returns (rows, strain_values) ; row = dict of the recorded quantities"""
    res = []          # open points: dicts L, S, E
    rows, strains = [], []
    iz, ir = 0, 1
    lmax = 0
    e_min_lf, e_max_lf = 0.0, 0.0
    prev_load = 0
    for pass_index, revs in enumerate(reversals_by_pass, start=1):
        prev_load = 0
        for L in revs:
            # a reversal may be given as (load, pass the hystereses it closes belong to)
            run_index = pass_index
            if isinstance(L, tuple):
                L, run_index = L
            def primary():
                S = law.s_stress(L)
                return {"L": L, "S": S, "E": law.s_strain(S, L)}

            def secondary(p):
                dL = L - p["L"]
                dS = law.s_dstress(dL)
                return {"L": L, "S": p["S"] + dS, "E": p["E"] + law.s_dstrain(dS, dL)}
            while True:
                if iz == ir:
                    p = res[-1]
                    if abs(L) > lmax + tol:
                        rows.append({"loads_min": -abs(p["L"]), "loads_max": abs(p["L"]), "S_min": -abs(p["S"]), "S_max": abs(p["S"]),
                                     "epsilon_min": -abs(p["E"]), "epsilon_max": abs(p["E"]), "closed": False, "zero_mean": True,
                                     "run": run_index, "e_min_LF": e_min_lf, "e_max_LF": e_max_lf})
                        cur = primary()
                        ir += 1
                    else:
                        cur = secondary(p)
                    break
                if iz < ir:
                    cur = primary()
                    break
                p0, p1 = res[-2], res[-1]
                if abs(L - p1["L"]) < abs(p1["L"] - p0["L"]) - tol:
                    cur = secondary(p1)
                    break
                rows.append({"loads_min": s_min(p0["L"], p1["L"]), "loads_max": s_max(p0["L"], p1["L"]),
                             "S_min": s_min(p0["S"], p1["S"]), "S_max": s_max(p0["S"], p1["S"]),
                             "epsilon_min": s_min(p0["E"], p1["E"]), "epsilon_max": s_max(p0["E"], p1["E"]),
                             "closed": True, "zero_mean": False, "run": run_index, "e_min_LF": e_min_lf, "e_max_LF": e_max_lf})
                res.pop()
                res.pop()
                iz -= 2
                if abs(p0["L"]) < lmax - tol and abs(p1["L"]) < lmax - tol:
                    continue
                cur = primary()
                break
            strains.append(cur["E"])
            if abs(L) > lmax + tol:
                lmax = abs(L)
            iz += 1
            res.append(cur)
            if prev_load < L - tol:
                e_max_lf = e_max_lf if e_max_lf > cur["E"] else cur["E"]
            else:
                e_min_lf = e_min_lf if e_min_lf < cur["E"] else cur["E"]
            prev_load = L
    return rows, strains


def _apply_canary(ctx):
    cn = ctx.canary
    D = FKMNonlinearDetector
    if cn == "secondary_from_wrong_point":
        ctx.patch(D, "_hcm_process_sample", mutated(D._hcm_process_sample, "current_point = self._handle_case_c_i(current_point=current_point, previous_point_1=previous_point_1)",
                                                    "current_point = self._handle_case_c_i(current_point=current_point, previous_point_1=previous_point_0)"))
    elif cn == "memory2_on_secondary":
        ctx.patch(D, "_hcm_process_sample", mutated(D._hcm_process_sample, "            current_point = self._proceed_on_primary_branch(current_point)\n            self._strain_values.append",
                                                    "            current_point = self._proceed_on_secondary_branch(self._residuals[-1], current_point) if self._residuals else self._proceed_on_primary_branch(current_point)\n            self._strain_values.append"))
    elif cn == "lf_min_not_updated":
        ctx.patch(D, "_hcm_update_min_max_strain_values", mutated(D._hcm_update_min_max_strain_values, "if previous_load < current_load_representative-1e-12:", "if previous_load < current_load_representative+1e+12:"))
    elif cn == "R_not_forced":
        ctx.patch(REC.FKMNonlinearRecorder, "R", property(mutated(REC.FKMNonlinearRecorder.R.fget, "-1, np.array(self._S_min) / np.array(self._S_max))", "1, np.array(self._S_min) / np.array(self._S_max))")))
    elif cn == "carried_point_keeps_chunk_label":
        ctx.patch(D, "process", mutated(D.process, "steps[:len(self._last_sample)] = self._last_load_step", "pass"))
    elif cn == "multipoint_rows_of_previous_pass":
        ctx.patch(D, "process", mutated(D.process, "n_rows = n_previous * (len(_S_min) // len(_is_closed_hysteresis))", "n_rows = n_previous"))
    elif cn is not None:
        raise RuntimeError("unknown canary " + cn)


CANARIES = [
    {"name": "secondary_from_wrong_point", "cases": [{"kind": "single", "n": 4}]},
    {"name": "lf_min_not_updated", "cases": [{"kind": "single", "n": 2}]},
    {"name": "R_not_forced", "cases": [{"kind": "single", "n": 2}]},
    {"name": "memory2_on_secondary", "cases": [{"kind": "single", "n": 4}]},
    {"name": "carried_point_keeps_chunk_label", "cases": [{"kind": "multi_chunked", "n": 4, "cuts": [3], "factors": [0.5]}]},
    {"name": "multipoint_rows_of_previous_pass", "cases": [{"kind": "multi", "n": 4, "factors": [0.5], "only": "deferred_closing"}]},
]
QUICK_CANARIES = 6


def _run_impl(ctx, law, data):
    rec = FKMNonlinearRecorder()
    det = FKMNonlinearDetector(recorder=rec, notch_approximation_law=law)
    with warnings.catch_warnings():
        warnings.simplefilter("ignore")
        det.process_hcm_first(data)
        det.process_hcm_second(data)
        coll = rec.collective
    return det, rec, coll


def _proper_reversals(ctx, xs):
    """assume strict alternation 0 -> x0 -> x1 ... -> x_{n-1} -> x0"""
    n = len(xs)
    seq = [0] + list(xs) + [xs[0], xs[1]]       # start from zero, the sequence, and the junction x_{n-1} -> x_0 -> x_1
    conds = []
    for i in range(1, len(seq) - 1):
        a, b, c = seq[i - 1], seq[i], seq[i + 1]
        conds.append(sym_or(sym_and(a < b, c < b), sym_and(a > b, c > b)))
    ctx.assume(sym_and(*conds))


def _passes(ctx, xs):
    """which reversals the two passes process.  A last reversal that lies strictly between its predecessor and
    zero is left to the second pass by the first pass (see C04): the oracle follows the same attribution."""
    n = len(xs)
    p, s = xs[n - 2], xs[n - 1]
    deferred = bool(sym_or(sym_and(p < s, s < 0), sym_and(p > s, s > 0)))
    if deferred:
        # the deferred reversal is processed at the start of the second pass but still belongs to the first one
        return [list(xs[:-1]), [(xs[-1], 1)] + list(xs)], True
    return [list(xs), list(xs)], False


def _colvals(coll, col, point=None):
    v = coll[col]
    if point is not None:
        v = v[coll.index.get_level_values("assessment_point_index") == point]
    return list(v)


def _check_rows(ctx, coll, rows, point=None, tag=""):
    n_rows = len(_colvals(coll, "run_index", point))
    ctx.claim(n_rows == len(rows), "rows.flags", ("number of hystereses", n_rows, len(rows)))
    if n_rows != len(rows):
        return
    ctx.claim([int(v) for v in _colvals(coll, "run_index", point)] == [r["run"] for r in rows], "rows.flags", "run_index")
    ctx.claim([bool(v) for v in _colvals(coll, "is_closed_hysteresis", point)] == [r["closed"] for r in rows], "rows.flags", "closed")
    ctx.claim([bool(v) for v in _colvals(coll, "is_zero_mean_stress_and_strain", point)] == [r["zero_mean"] for r in rows], "rows.flags", "zero_mean")
    for col in ("loads_min", "loads_max"):
        ctx.claim(eq_struct(_colvals(coll, col, point), [r[col] for r in rows]), "rows.loads", (tag, col))
    for col in ("S_min", "S_max", "epsilon_min", "epsilon_max"):
        ctx.claim(eq_struct(_colvals(coll, col, point), [r[col] for r in rows]), "rows.stress_strain", (tag, col, _colvals(coll, col, point), [r[col] for r in rows]))
    ctx.claim(eq_struct(_colvals(coll, "epsilon_min_LF", point), [r["e_min_LF"] for r in rows]), "rows.LF", (tag, "min"))
    ctx.claim(eq_struct(_colvals(coll, "epsilon_max_LF", point), [r["e_max_LF"] for r in rows]), "rows.LF", (tag, "max"))
    # derived columns
    exp_sa = [(r["S_max"] - r["S_min"]) / 2 for r in rows]
    exp_sm = [0.0 if r["zero_mean"] else (r["S_max"] + r["S_min"]) / 2 for r in rows]
    exp_ea = [(r["epsilon_max"] - r["epsilon_min"]) / 2 for r in rows]
    exp_em = [0.0 if r["zero_mean"] else (r["epsilon_max"] + r["epsilon_min"]) / 2 for r in rows]
    for col, exp in (("S_a", exp_sa), ("S_m", exp_sm), ("epsilon_a", exp_ea), ("epsilon_m", exp_em)):
        ctx.claim(ctx.close(_colvals(coll, col, point), exp), "rows.derived", (tag, col))
    got_R = _colvals(coll, "R", point)
    for g, r in zip(got_R, rows):
        if r["zero_mean"]:
            ctx.claim(eq_struct(g, -1), "rows.derived", (tag, "R forced"))
        elif bool(r["S_max"] != 0):
            ctx.claim(ctx.close(g, r["S_min"] / r["S_max"]), "rows.derived", (tag, "R"))


def _run_chunked(ctx, case):
    """several points at once == every point alone, when the history arrives in two process() calls (any samples:
    plateaus, non-reversals and a chunk border inside a plateau included).  Two runs of the real code are compared."""
    n, cuts, factors = case["n"], list(case.get("cuts", [])), [1.0] + list(case["factors"])
    xs = [ctx.int("x%d" % i) for i in range(n)]
    if case.get("hcm"):
        ctx.assume(sym_or(*[xs[i] != xs[0] for i in range(1, n)]))       # at least two distinct values (C04's quantifier)
    ctx.hint(sym_and(*[sym_and(x <= 8, x >= -8) for x in xs]))
    if case.get("plateau_at_cut"):
        ctx.assume(xs[cuts[0] - 2] == xs[cuts[0] - 1])           # sub-family: the first chunk ends inside a plateau
    borders = [0] + cuts + [n]
    chunks = list(zip(borders[:-1], borders[1:]))
    law = StubLaw(ctx)
    dt = object if ctx.sym else np.float64
    nodes = [7, 9, 4][:len(factors)]

    def series(lo, hi):
        # load steps numbered consecutively across the calls, or (relabel) every call numbers its steps from 0 again
        steps = range(0, hi - lo) if case.get("relabel") else range(lo, hi)
        idx = pd.MultiIndex.from_product([steps, nodes], names=["load_step", "node_id"])
        vals = []
        for x in xs[lo:hi]:
            vals += [f * x for f in factors]
        return pd.Series(np.array(vals, dtype=dt), index=idx)

    with warnings.catch_warnings():
        warnings.simplefilter("ignore")
        rec = FKMNonlinearRecorder()
        det = FKMNonlinearDetector(recorder=rec, notch_approximation_law=law)
        if case.get("hcm"):
            # the two HCM passes on the whole history (any samples; load step labels as given, not necessarily ascending)
            idx = pd.MultiIndex.from_product([case["steps"], nodes], names=["load_step", "node_id"])
            vals = []
            for x in xs:
                vals += [f * x for f in factors]
            whole = pd.Series(np.array(vals, dtype=dt), index=idx)
            det.process_hcm_first(whole)
            det.process_hcm_second(whole)
        elif case.get("twice"):
            # the same block (same load step labels) handed over twice, as pylife's own multi-index test does
            det.process(series(0, n)).process(series(0, n), flush=True)
        else:
            for lo, hi in chunks:
                det.process(series(lo, hi), flush=(hi == n))
        coll = rec.collective
        out = {}
        for j, f in enumerate(factors):
            rec1 = FKMNonlinearRecorder()
            det1 = FKMNonlinearDetector(recorder=rec1, notch_approximation_law=law)
            if case.get("hcm"):
                one = np.array([f * x for x in xs], dtype=dt)
                det1.process_hcm_first(one)
                det1.process_hcm_second(one)
            elif case.get("twice"):
                one = np.array([f * x for x in xs], dtype=dt)
                det1.process(one).process(one, flush=True)
            else:
                for lo, hi in chunks:
                    det1.process(np.array([f * x for x in xs[lo:hi]], dtype=dt), flush=(hi == n))
            c1 = rec1.collective
            rows_m, rows_1 = len(_colvals(coll, "run_index", j)), len(_colvals(c1, "run_index"))
            ctx.claim(rows_m == rows_1, "multipoint_equals_single", ("chunked: rows", j, rows_m, rows_1))
            if rows_m != rows_1:
                continue
            for col in ("loads_min", "loads_max", "S_min", "S_max", "epsilon_min", "epsilon_max"):
                ctx.claim(eq_struct(_colvals(coll, col, j), _colvals(c1, col)), "multipoint_equals_single", ("chunked", j, col, _colvals(coll, col, j), _colvals(c1, col)))
            for col in ("is_closed_hysteresis", "is_zero_mean_stress_and_strain", "run_index"):
                ctx.claim([int(v) for v in _colvals(coll, col, j)] == [int(v) for v in _colvals(c1, col)], "multipoint_equals_single", ("chunked", j, col))
            out["p%d" % j] = _colvals(coll, "loads_max", j)
        ctx.signature(("multi_chunked", n, tuple(cuts), [bool(v) for v in _colvals(coll, "is_closed_hysteresis", 0)]), trivial=not len(coll))
    return out


def run(ctx, case):
    _apply_canary(ctx)
    if ctx.sym:
        ctx.eng.int_mode = True
    if case["kind"] == "multi_chunked":
        return _run_chunked(ctx, case)
    kind, n = case["kind"], case["n"]
    xs = [ctx.int("x%d" % i) for i in range(n)]
    ctx.hint(sym_and(*[sym_and(x <= 8, x >= -8) for x in xs]))
    _proper_reversals(ctx, xs)
    for fid, pred in junction_regions(ctx, xs).items():
        if ctx.open_finding("C04-" + fid) and pred:
            ctx.assume(False)
    law = StubLaw(ctx)
    dt = object if ctx.sym else np.float64
    if case.get("only") == "deferred_closing":
        # sub-family (one order type and its mirror image): the last sample is a reversal of the repeated sequence only,
        # is therefore left to the second pass, and closes the inner hysteresis when it arrives there
        a, b, c, d = xs
        ctx.assume(sym_or(sym_and(a > c, c > b, b > d, d > 0), sym_and(a < c, c < b, b < d, d < 0)))
    passes, deferred = _passes(ctx, xs)
    rows, strains = hcm_oracle(law, passes)

    if kind in ("single", "negate"):
        det, rec, coll = _run_impl(ctx, law, np.array(xs, dtype=dt))
        ctx.signature((kind, n, [(r["closed"], r["run"]) for r in rows], deferred), trivial=not rows)
        if kind == "single":
            _check_rows(ctx, coll, rows)
            ctx.claim(eq_struct(list(det.strain_values), strains), "strain_values", (list(det.strain_values), strains))
            n1 = len(passes[0])
            ctx.claim(eq_struct(list(det.strain_values_first_run), strains[:n1]), "strain_values", "first run")
            ctx.claim(eq_struct(list(det.strain_values_second_run), strains[n1:]), "strain_values", "second run")
            return {"loads_min": _colvals(coll, "loads_min"), "loads_max": _colvals(coll, "loads_max"),
                    "closed": [bool(v) for v in _colvals(coll, "is_closed_hysteresis")],
                    "run": [int(v) for v in _colvals(coll, "run_index")]}
        # negated loads mirror stresses and strains and swap min/max
        det2, rec2, coll2 = _run_impl(ctx, law, np.array([-x for x in xs], dtype=dt))
        for lo, hi in (("loads_min", "loads_max"), ("S_min", "S_max"), ("epsilon_min", "epsilon_max")):
            ctx.claim(eq_struct(_colvals(coll2, lo), [-v for v in _colvals(coll, hi)]), "negation_mirrors", lo)
            ctx.claim(eq_struct(_colvals(coll2, hi), [-v for v in _colvals(coll, lo)]), "negation_mirrors", hi)
        ctx.claim(eq_struct(_colvals(coll2, "epsilon_min_LF"), [-v for v in _colvals(coll, "epsilon_max_LF")]), "negation_mirrors", "LF")
        for c in ("is_closed_hysteresis", "run_index"):
            ctx.claim([int(v) for v in _colvals(coll2, c)] == [int(v) for v in _colvals(coll, c)], "negation_mirrors", c)
        ctx.claim(eq_struct(list(det2.strain_values), [-v for v in det.strain_values]), "negation_mirrors", "strain values")
        return {"loads_min": _colvals(coll2, "loads_min"), "loads_max": _colvals(coll2, "loads_max"),
                "run": [int(v) for v in _colvals(coll2, "run_index")]}

    if kind == "multi":
        factors = [1.0] + list(case["factors"])
        nodes = [7, 9, 4][:len(factors)]
        steps = case.get("steps") or list(range(n))          # load step labels need not ascend: the row order is the time order
        idx = pd.MultiIndex.from_product([steps, nodes], names=["load_step", "node_id"])
        vals = []
        for x in xs:
            vals += [f * x for f in factors]
        ser = pd.Series(np.array(vals, dtype=dt), index=idx)
        det, rec, coll = _run_impl(ctx, law, ser)
        ctx.signature((kind, n, tuple(factors), [(r["closed"], r["run"]) for r in rows]), trivial=not rows)
        out = {}
        for j, f in enumerate(factors):
            pj = [[((f * L[0], L[1]) if isinstance(L, tuple) else f * L) for L in p] for p in passes]
            rows_j, _ = hcm_oracle(law, pj)
            cj = coll
            n_rows = len(_colvals(cj, "run_index", j))
            ctx.claim(n_rows == len(rows_j), "multipoint_equals_single", ("rows", j, n_rows, len(rows_j)))
            if n_rows != len(rows_j):
                continue
            for col, key in (("loads_min", "loads_min"), ("loads_max", "loads_max"), ("S_min", "S_min"), ("S_max", "S_max"),
                             ("epsilon_min", "epsilon_min"), ("epsilon_max", "epsilon_max")):
                # (the running strain extremes are decided on the first node only; that they agree per node needs
                #  Masing behaviour and convexity of the law, which the stub does not encode -> not compared here)
                ctx.claim(eq_struct(_colvals(cj, col, j), [r[key] for r in rows_j]), "multipoint_equals_single", (j, col))
            ctx.claim([bool(v) for v in _colvals(cj, "is_closed_hysteresis", j)] == [r["closed"] for r in rows_j], "multipoint_equals_single", (j, "closed"))
            ctx.claim([bool(v) for v in _colvals(cj, "is_zero_mean_stress_and_strain", j)] == [r["zero_mean"] for r in rows_j], "multipoint_equals_single", (j, "zero mean"))
            ctx.claim([int(v) for v in _colvals(cj, "run_index", j)] == [r["run"] for r in rows_j], "multipoint_equals_single", (j, "run"))
            out["p%d" % j] = _colvals(cj, "loads_max", j)
        return out
    raise RuntimeError("unknown kind")
