"""C02  Detectors realise the four-point rainflow definition and lose no turning point."""
import itertools

import numpy as np

import pylife.stress.rainflow.general as GEN
import pylife.stress.rainflow.fkm as FKM

from ..sym import sym_and, sym_or, s_eq
from ..util import eq_struct, mutated
from ..oracles import rainflow as O
from . import rf_common as C

PROPERTY = "C02"
ENCODED = ["file:src/pylife/stress/rainflow/extension.pyx",
           "pylife.stress.rainflow.general:find_turns",
           "pylife.stress.rainflow.general:AbstractDetector._new_turns",
           "pylife.stress.rainflow.general:AbstractDetector.residual_index",
           "pylife.stress.rainflow.threepoint:ThreePointDetector.process",
           "pylife.stress.rainflow.fourpoint:FourPointDetector.process",
           "pylife.stress.rainflow.fkm:FKMDetector.process",
           "pylife.stress.rainflow.recorders:FullRecorder.record_index"]
STUBS = C01_STUBS = ["extension.pyx kernels: mechanical Python translation of the current .pyx text (symbolic run); "
                     "module compiled from the same text (concrete replays)"]
ASSUMPTIONS = ["floats are modelled as reals", "finite samples (no NaN)",
               "detectors are driven with process(signal) without flush (the mode in which the residual is the "
               "turning-point sequence of the statement)",
               "oracles: textbook four-point stack rule, Clormann/Seeger HCM and the turning-point definition as "
               "written in pvx/oracles/rainflow.py"]
OUTSIDE = "signals longer than the bound; float rounding; flush=True mode (covered by C01 only)"
RULE = ("one evaluation = one explored path (order type of samples and ranges incl. ties); distinct = distinct "
        "(detector, length, index pattern of cycles and residual); non-trivial = at least one closed cycle")
LABELS = ["find_turns", "4pt.cycles", "4pt.residual", "3pt.multiset", "3pt.residual", "fkm.cycles", "fkm.residual",
          "uses_every_tp_once", "index_addresses_value"]


def bounds(tier):
    return {"signal_length": "2..%d" % (6 if tier == "quick" else 9), "detectors": list(C.DETECTORS),
            "fed_in_two_pieces": "3..%d samples, every border" % (6 if tier == "quick" else 7)}


prepare = C.prepare


def cases(tier):
    n = 6 if tier == "quick" else 9
    out = []
    for det in C.DETECTORS:
        for m in range(2, n + 1):
            c = {"det": det, "m": m, "_weight": 5 ** m}
            if m >= 7:
                c["_split"] = 2 * m - 6      # decision depth at which the case is cut into parallel work items
            out.append(c)
    for det in C.DETECTORS:
        for m in range(3, (6 if tier == "quick" else 7) + 1):
            for cut in range(1, m):
                c = {"det": det, "m": m, "cut": cut, "_weight": 5 ** m}
                if m >= 7:
                    c["_split"] = 2 * m - 6
                out.append(c)
    return out


def _apply_canary(ctx):
    cn = ctx.canary
    if cn == "fourpoint_le_to_lt":
        return ("if bc <= ab and bc <= cd:", "if bc <= ab and bc < cd:")
    if cn == "threepoint_ge_to_gt":
        return ("fabs(back_val - front_val) >= fabs(front_val - start_val)", "fabs(back_val - front_val) > fabs(front_val - start_val)")
    if cn == "threepoint_front_guard":
        return ("start >= _max(lowest_front, highest_front)", "start > _max(lowest_front, highest_front)")
    if cn == "plateau_last_sample":
        ctx.patch(GEN, "find_turns", mutated(GEN.find_turns, "plateau_turns[dups_starts[np.where", "plateau_turns[dups_ends[np.where"))
    elif cn == "fkm_ge_to_gt":
        ctx.patch(FKM.FKMDetector, "process", mutated(FKM.FKMDetector.process, "np.abs(current-last0) >= np.abs(last0-last1)",
                                                      "np.abs(current-last0) > np.abs(last0-last1)"))
    elif cn is not None:
        raise RuntimeError("unknown canary " + cn)
    return None


CANARIES = [
    {"name": "fourpoint_le_to_lt", "cases": [{"det": "fourpoint", "m": 5}]},
    {"name": "plateau_last_sample", "cases": [{"det": "fourpoint", "m": 4}]},
    {"name": "fkm_ge_to_gt", "cases": [{"det": "fkm", "m": 5}]},
    {"name": "threepoint_ge_to_gt", "cases": [{"det": "threepoint", "m": 5}]},
    {"name": "threepoint_front_guard", "cases": [{"det": "threepoint", "m": 6}]},
]
QUICK_CANARIES = 3


def multiset_eq(a, b):
    """multiset equality of two lists of value tuples as SymBool / bool"""
    if len(a) != len(b):
        return False
    if not a:
        return True
    alts = []
    for perm in itertools.permutations(range(len(b))):
        alts.append(sym_and(*[sym_and(*[s_eq(x, y) for x, y in zip(a[i], b[j])]) for i, j in enumerate(perm)]))
    return sym_or(*alts)


def fkm_tie_region(x, rev_idx):
    """known-finding region C02-fkm-abs-tie: some reversal's |value| equals the largest |value| of the
    reversals before it"""
    conds = []
    for k in range(1, len(rev_idx)):
        cur = abs(x[rev_idx[k]])
        for j in range(k):
            conds.append(cur == abs(x[rev_idx[j]]))
    return sym_or(*conds) if conds else False


def run(ctx, case):
    mut = _apply_canary(ctx)
    C.install_kernels(ctx, mut)
    m, det = case["m"], case["det"]
    xs, arr = C.signal(ctx, m)

    tp = O.tp_index(xs)
    if det == "fkm" and ctx.open_finding("C02-fkm-abs-tie"):
        from ..sym import sym_not
        ctx.assume(sym_not(fkm_tie_region(xs, tp[1:-1])))

    # turning point extraction
    idx, vals = GEN.find_turns(arr)
    ctx.claim([int(i) for i in idx] == tp[1:-1], "find_turns", (list(idx), tp))
    ctx.claim(eq_struct(list(vals), [xs[i] for i in tp[1:-1]]), "find_turns")

    d = C.make(det)
    cut = case.get("cut")
    if cut:
        # the same statement when the signal arrives in two pieces (chunk independence itself is C01's subject)
        d.process(arr[:cut])
        d.process(arr[cut:])
    else:
        d.process(arr)
    o = C.observe(d)
    ncyc = len(o["values_from"])
    ctx.signature((det, m, cut, o["index_from"], o["index_to"], o["residual_index"]), trivial=(ncyc == 0))

    if det in ("fourpoint", "threepoint"):
        cyc, res = O.four_point([(i, xs[i]) for i in tp])
        exp_res_idx = [p[0] for p in res]
        exp_res_val = [p[1] for p in res]
        if det == "fourpoint":
            ctx.claim(o["index_from"] == [c[0][0] for c in cyc] and o["index_to"] == [c[1][0] for c in cyc],
                      "4pt.cycles", (o, cyc))
            ctx.claim(sym_and(eq_struct(o["values_from"], [c[0][1] for c in cyc]),
                              eq_struct(o["values_to"], [c[1][1] for c in cyc])), "4pt.cycles")
            ctx.claim(o["residual_index"] == exp_res_idx, "4pt.residual", (o, res))
            ctx.claim(eq_struct(o["residuals"], exp_res_val), "4pt.residual")
        else:
            got = list(zip(o["values_from"], o["values_to"]))
            exp = [(c[0][1], c[1][1]) for c in cyc]
            ctx.claim(multiset_eq(got, exp), "3pt.multiset", (o, cyc))
            ctx.claim(o["residual_index"] == exp_res_idx, "3pt.residual", (o, res))
            ctx.claim(eq_struct(o["residuals"], exp_res_val), "3pt.residual")
        used = sorted(o["index_from"] + o["index_to"] + o["residual_index"])
        ctx.claim(used == sorted(tp), "uses_every_tp_once", (used, tp))
        conj = []
        for ik, vk in (("index_from", "values_from"), ("index_to", "values_to"), ("residual_index", "residuals")):
            ok = all(0 <= i < m for i in o[ik]) and len(o[ik]) == len(o[vk])
            ctx.claim(ok, "index_addresses_value")
            if ok:
                conj.extend(xs[i] == v for i, v in zip(o[ik], o[vk]))
        ctx.claim(sym_and(*conj), "index_addresses_value")
    else:
        cyc, res = O.hcm_clormann_seeger([xs[i] for i in tp[1:-1]])
        ctx.claim(sym_and(eq_struct(o["values_from"], [c[0] for c in cyc]),
                          eq_struct(o["values_to"], [c[1] for c in cyc])), "fkm.cycles", (o, cyc))
        ctx.claim(eq_struct(o["residuals"], res), "fkm.residual", (o, res))
    return o
