"""C09  FKM-nonlinear damage curves, parameter and accumulation are self-consistent (encodable clauses)."""
import itertools
import math

import numpy as np
import pandas as pd

import pylife.strength.woehler_fkm_nonlinear as WF
import pylife.strength.damage_parameter as DP
import pylife.strength.fkm_nonlinear.damage_calculator as DC
import pylife.strength.fkm_load_distribution as LD
import pylife.strength.fkm_nonlinear.constants as CONST

from ..sym import sym_and, sym_or, sym_not, SymReal, LogReal, Unsupported, is_sym, s_ite
from ..util import eq_struct, mutated
from .. import npfacade

PROPERTY = "C09"
ENCODED = ["pylife.strength.woehler_fkm_nonlinear:WoehlerCurvePRAM.calc_N",
           "pylife.strength.woehler_fkm_nonlinear:WoehlerCurvePRAM.calc_P_RAM",
           "pylife.strength.woehler_fkm_nonlinear:WoehlerCurvePRAM.fatigue_life_limit",
           "pylife.strength.woehler_fkm_nonlinear:WoehlerCurvePRAJ.calc_N",
           "pylife.strength.woehler_fkm_nonlinear:WoehlerCurvePRAJ.calc_P_RAJ",
           "pylife.strength.woehler_fkm_nonlinear:WoehlerCurvePRAJ.fatigue_life_limit",
           "pylife.strength.damage_parameter:P_RAM._compute_values",
           "pylife.strength.fkm_nonlinear.damage_calculator:DamageCalculatorPRAM.__init__",
           "pylife.strength.fkm_nonlinear.damage_calculator:DamageCalculatorPRAM.lifetime_n_times_load_sequence",
           "pylife.strength.fkm_nonlinear.damage_calculator:DamageCalculatorPRAM.lifetime_n_cycles",
           "pylife.strength.fkm_nonlinear.damage_calculator:DamageCalculatorPRAM.is_life_infinite",
           "pylife.strength.fkm_load_distribution:FKMLoadDistributionNormal.gamma_L",
           "pylife.strength.fkm_load_distribution:FKMLoadDistributionLognormal.gamma_L",
           "pylife.strength.fkm_load_distribution:FKMLoadDistributionBlanket.gamma_L",
           "pylife.strength.fkm_load_distribution:FKMLoadSequence.maximum_absolute_load"]
STUBS = ["np facade in woehler_fkm_nonlinear / damage_parameter / damage_calculator / fkm_load_distribution (where, power, "
         "isnan, sqrt element-wise on objects); `float` is the identity in fkm_load_distribution (maximum_absolute_load ends "
         "with float(L_max)); x**y with non-integer y in the damage calculator is a positive uninterpreted function (only "
         "sums and ratios of the damages matter); SeriesGroupBy.cumsum gets an object-dtype fall-back"]
ASSUMPTIONS = ["curves: P_RAM_Z > P_RAM_D > 0 resp. P_RAJ_Z > P_RAJ_D > 0 symbolic in the log domain (range [1e-9, 1e9]); exponents "
               "d_1, d_2, d_RAJ are the constants of the three material groups",
               "P_RAM: S_a >= 0, S_m, epsilon_a >= 0, E > 0 symbolic; R_m from {400, 600, 1200} x three material groups (pandas "
               "stores the mean-stress factor in a float64 column); sqrt exact",
               "damage accumulation: P_RAM_i > 0 symbolic, every closed/half x pass-1/pass-2 flag pattern up to the bound",
               "gamma_L: loads and scatter symbolic, P_L in {2.5, 50}, P_A from the guideline table"]
OUTSIDE = ("compute_beta (scipy root search on |Phi(x) - P_A|: transcendental, no encoding); P_RAJ damage parameter (crack "
           "opening: cos, real powers, Newton); DamageCalculatorPRAJ (class search over logspace)")
RULE = "one evaluation = one explored path; distinct = distinct (clause, parameters, path signature)"
LABELS = ["pram.inverse", "pram.knee_1e3", "pram.endurance", "pram.decreasing", "praj.inverse", "praj.endurance", "praj.decreasing",
          "p_ram.formula", "p_ram.zero_when_negative", "accumulation.n_times", "accumulation.n_cycles", "accumulation.infinite",
          "gamma_L.normal", "gamma_L.lognormal", "gamma_L.blanket"]
RTOL = 1e-9
ATOL = 1e-12
TOLE = 1e-9
GROUPS = ["Steel", "SteelCast", "Al_wrought"]
P_A_TABLE = [(1e-7, 5.20), (1e-6, 4.75), (1e-5, 4.27), (7.2e-5, 3.8), (1e-3, 3.09), (2.3e-1, 0.739), (0.5, 0)]


def bounds(tier):
    return {"hystereses": "1..%d (all closed/half x pass patterns with at least one pass-2 hysteresis)" % (3 if tier == "quick" else 5),
            "material_groups": GROUPS, "R_m": [400, 600, 1200]}


def options(tier):
    return {"timeout_ms": 10000 if tier == "quick" else 60000}


def prepare(tier):
    npfacade.selftest()


def cases(tier):
    q = tier == "quick"
    out = []
    for g in GROUPS:
        out.append({"kind": "pram_curve", "group": g, "_weight": 3})
        out.append({"kind": "praj_curve", "group": g, "_weight": 3})
        for rm in ([600] if q else [400, 600, 1200]):
            out.append({"kind": "p_ram", "group": g, "R_m": rm, "_weight": 3})
        out.append({"kind": "p_ram", "group": g, "R_m": 600, "dtype": "int", "_weight": 3})
    nmax = 3 if q else 5
    for n in range(1, nmax + 1):
        for runs in itertools.product((1, 2), repeat=n):
            if list(runs) != sorted(runs) or 2 not in runs:
                continue
            for closed in itertools.product((True, False), repeat=n):
                # half hystereses occur in the first pass only (C04); every mix otherwise
                if any((not c) and r == 2 for c, r in zip(closed, runs)):
                    continue
                out.append({"kind": "accumulate", "runs": list(runs), "closed": list(closed), "_weight": 2 ** n})
    for pl in (2.5, 50.0):
        for pa, _ in (P_A_TABLE[::3] if q else P_A_TABLE):
            out.append({"kind": "gamma", "P_L": pl, "P_A": pa, "_weight": 2})
    return out


def _apply_canary(ctx):
    cn = ctx.canary
    if cn == "pram_knee_exponent":
        ctx.patch(WF.WoehlerCurvePRAM, "calc_P_RAM", mutated(WF.WoehlerCurvePRAM.calc_P_RAM, "self.P_RAM_Z * np.power(N * 1e-3, self.d_2),", "self.P_RAM_Z * np.power(N * 1e-3, self.d_1),"))
    elif cn == "p_ram_k_sign":
        ctx.patch(DP.P_RAM, "_compute_values", mutated(DP.P_RAM._compute_values, 'self._M_sigma/3 * (self._M_sigma/3 + 2)', 'self._M_sigma/3 * (self._M_sigma + 2)'))
    elif cn == "half_counts_full":
        ctx.patch(DC.DamageCalculatorPRAM, "__init__", mutated(DC.DamageCalculatorPRAM.__init__, '0.5/self._collective["N"]', '1.0/self._collective["N"]'))
    elif cn == "gamma_lognormal_no_clip":
        ctx.patch(LD.FKMLoadDistributionLognormal, "gamma_L", mutated(LD.FKMLoadDistributionLognormal.gamma_L, "gamma_L = max(1, 10 ** alpha_LSD)", "gamma_L = 10 ** alpha_LSD"))
    elif cn is not None:
        raise RuntimeError("unknown canary " + cn)


CANARIES = [
    {"name": "pram_knee_exponent", "cases": [{"kind": "pram_curve", "group": "Steel"}]},
    {"name": "half_counts_full", "cases": [{"kind": "accumulate", "runs": [1, 2], "closed": [False, True]}]},
    {"name": "gamma_lognormal_no_clip", "cases": [{"kind": "gamma", "P_L": 2.5, "P_A": 0.5}]},
    {"name": "p_ram_k_sign", "cases": [{"kind": "p_ram", "group": "Steel", "R_m": 600}]},
]
QUICK_CANARIES = 4


def _bounded(ctx, name, lo=1e-9, hi=1e9):
    x = ctx.logreal(name)
    ctx.assume(sym_and(x >= lo, x <= hi))
    return x


def _lg(x):
    if isinstance(x, LogReal):
        return SymReal(x.e)
    return math.log10(float(x))


def _scalar(x):
    if isinstance(x, np.ndarray):
        return x.reshape(-1)[0] if x.size == 1 else x
    if isinstance(x, pd.Series):
        return x.iloc[0]
    return x


def _isinf(x):
    x = _scalar(x)
    return isinstance(x, (float, np.floating)) and math.isinf(x)


def _close_log(a, b, tol=TOLE):
    a, b = _scalar(a), _scalar(b)
    if _isinf(a) or _isinf(b):
        return _isinf(a) and _isinf(b)
    la, lb = _lg(a), _lg(b)
    return abs(la - lb) <= tol * (1 + abs(lb))


def _setup(ctx, *mods):
    if ctx.sym:
        for m in mods:
            ctx.patch(m, "np", npfacade.FACADE)
        ctx.patch(pd.Series, "to_numpy", npfacade.series_to_numpy_keeping_objects(pd.Series.to_numpy))


def run(ctx, case):
    _apply_canary(ctx)
    kind = case["kind"]
    ctx.signature((kind,) + tuple(sorted((k, str(v)) for k, v in case.items() if not k.startswith("_"))))
    if kind == "pram_curve":
        return _pram_curve(ctx, case)
    if kind == "praj_curve":
        return _praj_curve(ctx, case)
    if kind == "p_ram":
        return _p_ram(ctx, case)
    if kind == "accumulate":
        return _accumulate(ctx, case)
    if kind == "gamma":
        return _gamma(ctx, case)
    raise RuntimeError("unknown kind")


def _pram_curve(ctx, case):
    _setup(ctx, WF)
    c = CONST.all_constants[case["group"]]
    Z, D = _bounded(ctx, "Z"), _bounded(ctx, "D")
    ctx.assume(Z > D)
    curve = pd.Series({"P_RAM_Z": Z, "P_RAM_D": D, "d_1": float(c.d_1), "d_2": float(c.d_2)},
                      dtype=object if ctx.sym else np.float64).woehler_P_RAM
    P = _bounded(ctx, "P")
    N = _scalar(curve.calc_N(P))
    if bool(P <= D):
        ctx.claim(_isinf(N), "pram.endurance", ("finite life at or below the endurance value", N))
    else:
        ctx.claim(not _isinf(N), "pram.endurance", ("infinite life above the endurance value", N))
        back = _scalar(curve.calc_P_RAM(N))
        ctx.claim(_close_log(back, P), "pram.inverse", (N, back))
        # strictly decreasing in the finite range
        P2 = _bounded(ctx, "P2")
        ctx.assume(P2 > P)
        N2 = _scalar(curve.calc_N(P2))
        ctx.claim((not _isinf(N2)) and bool(_lg(N2) < _lg(N) + 0), "pram.decreasing", (N, N2))
    Nc = _bounded(ctx, "N")
    Pn = _scalar(curve.calc_P_RAM(Nc))
    life_limit = curve.fatigue_life_limit
    if bool(Nc < life_limit):
        N3 = _scalar(curve.calc_N(Pn))
        ctx.claim(_close_log(N3, Nc), "pram.inverse", (Pn, N3))
    else:
        ctx.claim(_close_log(Pn, D, 1e-12), "pram.endurance", ("beyond the knee the parameter stays at the endurance value", Pn))
    # continuity at N = 1e3 and at the endurance knee
    ctx.claim(_close_log(_scalar(curve.calc_P_RAM(1e3)), Z), "pram.knee_1e3", "P(1e3)")
    ctx.claim(_close_log(_scalar(curve.calc_N(Z)), 1e3), "pram.knee_1e3", "N(Z)")
    ctx.claim(_close_log(_scalar(curve.calc_P_RAM(life_limit)), D), "pram.endurance", "P at the knee")
    # whole cycle numbers given as integers (scalar and list): the same curve (dtype effects show in the witness replay)
    if bool(2001 < life_limit):
        p_int = _scalar(curve.calc_P_RAM(2000))
        ctx.claim(_close_log(_scalar(curve.calc_N(p_int)), 2000.0), "pram.inverse", ("integer cycle number", p_int))
        p_arr = list(np.asarray(curve.calc_P_RAM([2000, 2001]), dtype=object).reshape(-1))
        ctx.claim(len(p_arr) == 2 and bool(_lg(p_arr[1]) < _lg(p_arr[0])), "pram.decreasing", ("integer cycle numbers", p_arr))
    return {"N": N, "Pn": Pn, "life_limit": _scalar(life_limit)}


def _praj_curve(ctx, case):
    _setup(ctx, WF)
    c = CONST.all_constants[case["group"]]
    Z, D = _bounded(ctx, "Z"), _bounded(ctx, "D")
    ctx.assume(Z > D)
    curve = pd.Series({"P_RAJ_Z": Z, "P_RAJ_D_0": D, "d_RAJ": float(c.d_RAJ)},
                      dtype=object if ctx.sym else np.float64).woehler_P_RAJ
    P = _bounded(ctx, "P")
    N = _scalar(curve.calc_N(P))
    if bool(P <= D):
        ctx.claim(_isinf(N), "praj.endurance", N)
    else:
        ctx.claim(not _isinf(N), "praj.endurance", N)
        back = _scalar(curve.calc_P_RAJ(N))
        ctx.claim(_close_log(back, P), "praj.inverse", (N, back))
        P2 = _bounded(ctx, "P2")
        ctx.assume(P2 > P)
        N2 = _scalar(curve.calc_N(P2))
        ctx.claim((not _isinf(N2)) and bool(_lg(N2) < _lg(N)), "praj.decreasing", (N, N2))
    Nc = _bounded(ctx, "N")
    Pn = _scalar(curve.calc_P_RAJ(Nc))
    if bool(Nc < curve.fatigue_life_limit):
        ctx.claim(_close_log(_scalar(curve.calc_N(Pn)), Nc), "praj.inverse", Pn)
    else:
        ctx.claim(_close_log(Pn, D, 1e-12), "praj.endurance", Pn)
    ctx.claim(_close_log(_scalar(curve.calc_P_RAJ(curve.fatigue_life_limit)), D), "praj.endurance", "P at the knee")
    return {"N": N, "Pn": Pn}


def _p_ram(ctx, case):
    _setup(ctx, DP)
    ints = case.get("dtype") == "int"       # whole-number stresses in integer-typed columns
    Sa, Sm = (ctx.int("S_a"), ctx.int("S_m")) if ints else (ctx.real("S_a"), ctx.real("S_m"))
    ea, E = ctx.real("eps_a"), ctx.real("E")
    ctx.assume(sym_and(Sa >= 0, ea >= 0, E > 0))
    ctx.hint(sym_and(Sa <= 8, Sm <= 8, Sm >= -8, ea <= 4, E <= 4))
    if ints:
        ctx.hint(sym_and(Sm != 0, Sa > 0, ea > 0))
    dt = object if ctx.sym else np.float64
    dts = object if ctx.sym else (np.int64 if ints else np.float64)
    coll = pd.DataFrame({"S_a": np.array([Sa], dtype=dts), "S_m": np.array([Sm], dtype=dts), "epsilon_a": np.array([ea], dtype=dt)})
    ap = pd.Series({"MatGroupFKM": case["group"], "R_m": float(case["R_m"]), "E": E}, dtype=object)
    res = DP.P_RAM(coll, ap).collective
    P = list(res["P_RAM"])[0]
    c = CONST.all_constants[case["group"]]
    M = float(c.a_M) * 1e-3 * float(case["R_m"]) + float(c.b_M)
    k = M * (M + 2) if bool(Sm >= 0) else M / 3 * (M / 3 + 2)
    prod = (Sa + k * Sm) * ea * E
    if bool(Sa + k * Sm < 0):
        ctx.claim(eq_struct(P, 0.0) if ctx.sym else P == 0.0, "p_ram.zero_when_negative", P)
    else:
        ctx.claim(sym_and(P >= 0, ctx.close(P * P, prod, 1e-9)), "p_ram.formula", (P, prod))
    return {"P": P}


def realise(case, values):
    """accumulate cases: the model chooses the auxiliary values t = (P/Z)**(-1/d) freely (within monotonicity);
    the concrete replay needs parameters P_i that produce them: P_i = Z * t_i**(-d) for the exponent that is used"""
    if case.get("kind") != "accumulate" or not any(k.startswith("aux:t") for k in values):
        return values
    from fractions import Fraction
    n = len(case["runs"])
    c = CONST.all_constants["Steel"]
    Z = float(values["Z"])
    for i in range(n):
        t1, t2 = values.get("aux:t%d" % i), values.get("aux:t%d" % (n + i))
        if t1 is None or t2 is None:
            continue
        t1, t2 = float(t1), float(t2)
        if t1 >= 1:          # P >= Z: exponent 1/d_1 is used
            P = Z * t1 ** (-float(c.d_1))
        else:
            P = Z * t2 ** (-float(c.d_2))
        values["P%d" % i] = Fraction(P)
    return values


def _cumsum_fallback(sgb):
    """object-dtype fall-back for SeriesGroupBy.cumsum (pandas refuses object columns)"""
    ser = sgb.obj
    out = ser.copy()
    keys = sgb.grouper.result_index if hasattr(sgb, "grouper") else None
    groups = ser.groupby(level="assessment_point_index").indices
    vals = list(ser.values)
    res = list(vals)
    for _k, idx in groups.items():
        acc = None
        for i in idx:
            acc = vals[i] if acc is None else acc + vals[i]
            res[i] = acc
    return pd.Series(np.array(res, dtype=object), index=ser.index, name=ser.name)


def _accumulate(ctx, case):
    _setup(ctx, DC, WF)
    runs, closed = case["runs"], case["closed"]
    n = len(runs)
    dt = object if ctx.sym else np.float64
    if ctx.sym:
        cache = {}

        def hook(b, e):
            # x**y (non-integer y < 0) of a positive quantity is a positive number that depends only on (x, y),
            # decreases in x and equals 1 at x = 1.  It is represented as 1/t with a fresh t > 0 (registered as
            # an auxiliary input so that counterexamples can be realised, see realise()), which keeps the
            # damages c/N = c*t/1000 linear.
            if isinstance(b, SymReal) and bool(b == 0):
                return np.float64("inf")       # 0 ** (negative exponent), as numpy: no damage from a hysteresis with P_RAM = 0
            key = (repr(b), repr(e))
            if key not in cache:
                t = ctx.real("aux:t%d" % len(cache))
                ctx.assume(t > 0)
                ctx.assume((b >= 1) == (t >= 1))
                ctx.assume((b == 1) == (t == 1))
                for (ob, oe, ot) in cache.values():
                    if repr(oe) == repr(e):
                        ctx.assume(sym_and((ob < b) == (ot < t), (ob == b) == (ot == t)))
                cache[key] = (b, e, t)
            return 1 / cache[key][2]
        ctx.eng.power_hook = hook
        import pandas.core.groupby.generic as G
        orig = G.SeriesGroupBy.cumsum

        def cumsum(self, *a, **kw):
            if self.obj.dtype == object:
                return _cumsum_fallback(self)
            return orig(self, *a, **kw)
        ctx.patch(G.SeriesGroupBy, "cumsum", cumsum)
    P = [ctx.real("P%d" % i) for i in range(n)]
    Z, Dv = ctx.real("Z"), ctx.real("D")
    for p in P:
        ctx.assume(p >= 0)          # P_RAM = 0 (a hysteresis whose damage parameter is defined as zero) is part of the tables
    ctx.assume(sym_and(Z > Dv, Dv > 0))
    ctx.hint(sym_and(Z == 8, Dv == 1, *[sym_and(p <= 16, p >= 0.5) for p in P]))
    c = CONST.all_constants["Steel"]
    curve = pd.Series({"P_RAM_Z": Z, "P_RAM_D": Dv, "d_1": float(c.d_1), "d_2": float(c.d_2)}, dtype=dt).woehler_P_RAM
    coll = pd.DataFrame({"P_RAM": np.array(P, dtype=dt), "is_closed_hysteresis": closed, "run_index": np.array(runs, dtype=np.int64),
                         "S_min": np.zeros(n)})
    calc = DC.DamageCalculatorPRAM(coll, curve)
    n_times = _scalar(np.asarray(calc.lifetime_n_times_load_sequence, dtype=object))
    n_cyc = _scalar(np.asarray(calc.lifetime_n_cycles, dtype=object))
    inf_life = _scalar(np.asarray(calc.is_life_infinite, dtype=object))
    # literal accumulation with the per-hysteresis damages the calculator itself reports
    D = list(calc.collective["D"])
    Ns = list(calc.collective["N"])
    ctx.claim(sym_and(*[(eq_struct(d, 0.0) if ctx.sym else d == 0.0) if _isinf(nn) else ctx.close(d * nn, 1.0 if cl else 0.5)
                        for d, nn, cl in zip(D, Ns, closed)]), "accumulation.n_times", "D = 1/N resp. 0.5/N (0 for N = inf)")
    total, first_fail = 0, None
    for i, d in enumerate(D):
        total = total + d
        if first_fail is None and bool(total >= 1):
            first_fail = i
    D1 = sum([d for d, r in zip(D, runs) if r == 1], 0)
    D2 = sum([d for d, r in zip(D, runs) if r == 2], 0)
    n2 = sum(1 for r in runs if r == 2)
    if first_fail is not None:
        ctx.claim(ctx.close(n_cyc, float(first_fail)) if first_fail else eq_struct(n_cyc, 0), "accumulation.n_cycles", (n_cyc, first_fail))
    else:
        # D1 + x * D2 = 1 after the first pass; the sequence is applied x + 1 times
        x = float("inf") if (not ctx.sym and float(D2) == 0.0) else (1 - D1) / D2       # no damage per repetition: never
        ctx.claim(ctx.close(n_times, x + 1), "accumulation.n_times", (n_times, x))
        ctx.claim(ctx.close(n_cyc, (x + 1) * n2), "accumulation.n_cycles", (n_cyc, x))
    pmax2 = None
    for p, r in zip(P, runs):
        if r == 2:
            pmax2 = p if pmax2 is None else s_ite(p > pmax2, p, pmax2)
    ctx.claim((inf_life == (pmax2 <= Dv)) if ctx.sym else (bool(inf_life) == bool(pmax2 <= Dv)), "accumulation.infinite", (inf_life,))
    return None


def _gamma(ctx, case):
    _setup(ctx, LD)
    if ctx.sym:
        ctx.patch(LD, "float", lambda v: v)

        def hook(b, e):
            if isinstance(b, (int, float)) and float(b) == 10.0 and isinstance(e, SymReal):
                return LogReal(e.e)
            raise Unsupported("power %r ** %r" % (b, e))
        ctx.eng.power_hook = hook
    pl, pa = case["P_L"], case["P_A"]
    beta = dict(P_A_TABLE)[pa]
    dt = object if ctx.sym else np.float64
    L = [ctx.real("L%d" % i) for i in range(3)]
    ctx.assume(sym_or(*[x != 0 for x in L]))
    ctx.hint(sym_and(*[sym_and(x <= 8, x >= -8) for x in L]))
    seq = pd.Series(np.array(L, dtype=dt))
    sL = ctx.real("s_L")
    ctx.assume(sL >= 0)
    ctx.hint(sL <= 2)
    lmax = abs(L[0])
    for x in L[1:]:
        lmax = s_ite(abs(x) > lmax, abs(x), lmax)
    alpha = ((0.7 * beta - 2) if pl == 2.5 else 0.7 * beta)
    g = seq.fkm_safety_normal_from_stddev.gamma_L(pd.Series({"P_L": pl, "P_A": pa, "s_L": sL}, dtype=object))
    ctx.claim(ctx.close(g, (lmax + alpha * sL) / lmax), "gamma_L.normal", (g,))
    lsd = ctx.real("LSD_s")
    ctx.assume(sym_and(lsd >= 0, lsd <= 2))
    g2 = seq.fkm_safety_lognormal_from_stddev.gamma_L(pd.Series({"P_L": pl, "P_A": pa, "LSD_s": lsd}, dtype=object))
    a = alpha * lsd
    if bool(a <= 0):
        ctx.claim(eq_struct(g2, 1) if ctx.sym else g2 == 1, "gamma_L.lognormal", (g2,))
    else:
        ok = isinstance(g2, LogReal) and bool(abs(SymReal(g2.e) - a) <= 1e-12) if ctx.sym else abs(math.log10(g2) - a) <= 1e-9
        ctx.claim(ok, "gamma_L.lognormal", (g2, a))
    g3 = seq.fkm_safety_blanket.gamma_L(pd.Series({"P_L": pl}, dtype=object))
    ctx.claim(g3 == (1.1 if pl == 2.5 else 1.0), "gamma_L.blanket", g3)
    return {"normal": g, "lognormal": g2, "blanket": g3}
