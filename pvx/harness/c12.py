"""C12  Mean stress transformation follows iso-damage lines of the Haigh diagram."""
import math
from fractions import Fraction

import numpy as np
import pandas as pd

import pylife.strength.meanstress as MS

from ..sym import sym_and, sym_or, sym_not, s_eq, SymReal, sym_implies, float_fraction
from ..util import eq_struct, mutated

PROPERTY = "C12"
ENCODED = ["pylife.strength.meanstress:fkm_goodman", "pylife.strength.meanstress:five_segment_correction",
           "pylife.strength.meanstress:HaighDiagram.fkm_goodman", "pylife.strength.meanstress:HaighDiagram.five_segment",
           "pylife.strength.meanstress:HaighDiagram.transform",
           "pylife.strength.meanstress:_SegmentTransformer.__init__",
           "pylife.strength.meanstress:_SegmentTransformer.transform_cycles_in_interval",
           "pylife.strength.meanstress:_SegmentTransformer._distance_from_R_goal",
           "pylife.strength.meanstress:_SegmentTransformer.segments_containing_R_goal",
           "pylife.strength.meanstress:MeanstressTransformCollective.fkm_goodman",
           "pylife.strength.meanstress:MeanstressTransformMatrix.fkm_goodman",
           "pylife.strength.meanstress:MeanstressTransformMatrix._rebin_results",
           "pylife.stress.collective.load_collective:LoadCollective.amplitude",
           "pylife.stress.collective.load_collective:LoadCollective.R"]
STUBS = []
ASSUMPTIONS = ["floats are modelled as reals; value claims carry a relative tolerance of 1e-12 because the code evaluates constant sub-expressions such as 1-R+M*(1+R) in float arithmetic",
               "amplitude > 0 and mean are symbolic; mean stress sensitivities and R_goal are concrete and enumerated "
               "(pandas stores the sensitivities in a float64 block; a symbolic R_goal would make the terms bilinear)",
               "oracle: geometric walk along the piecewise-linear iso-damage line, sector by sector towards the target ray "
               "(pvx/harness/c12.py haigh_walk); claims are restricted to cycles whose oracle amplitude stays positive on the way"]
OUTSIDE = "parameter values outside the enumerated sets; float rounding; index layouts of collectives beyond a plain RangeIndex"
RULE = ("one evaluation = one explored path (sector of the Haigh plane of the cycle incl. its borders R = 0, +-inf, 1, R12, "
        "R23); distinct = distinct (clause, parameters, R_goal, path signature); non-trivial = cycle not already on the target ray")
LABELS = ["goodman.formula", "compose", "idempotent", "on_target_unchanged", "monotone_in_amplitude",
          "accessor_equals_function", "matrix.cycles_conserved", "matrix.class_placement"]
RTOL = 1e-9
ATOL = 1e-12

MS_SENS = [(0.0, 0.0), (0.1, 0.1 / 3), (0.3, 0.1), (0.3, 0.3), (0.3, 0.0), (0.6, 0.2)]
R_GOALS = [-math.inf, -3.0, -1.0, -0.5, 0.0, 0.25, 0.5, 0.9, 2.0, 5.0]
FIVE = [dict(M0=0.5, M1=0.45, M2=0.15, M3=0.05, M4=0.0, R12=0.25, R23=0.5),
        dict(M0=0.3, M1=0.3, M2=0.2, M3=0.1, M4=0.1, R12=0.5, R23=0.75),
        dict(M0=0.0, M1=0.2, M2=0.2, M3=0.0, M4=0.0, R12=0.25, R23=0.75)]


def bounds(tier):
    return {"ms_sensitivities(M,M2)": MS_SENS if tier != "quick" else MS_SENS[:5], "R_goal": R_GOALS,
            "five_segment_sets": len(FIVE), "cycles_per_call": "1 (formula, compose), 2 (monotone, accessor)"}


def ray(R):
    """mean/amplitude ratio c of the ray R (exact): R = +-inf -> -1"""
    if math.isinf(R):
        return Fraction(-1)
    R = float_fraction(float(R))
    return (1 + R) / (1 - R)


def goodman_sectors(M, M2):
    # sectors in c = m/a: R > 1 <-> c < -1 (M=0);  -inf <= R <= 0 <-> -1 <= c <= 1 (M);  0 < R < 1 <-> c > 1 (M2)
    return [(None, Fraction(-1), Fraction(0)), (Fraction(-1), Fraction(1), float_fraction(M)), (Fraction(1), None, float_fraction(M2))]


def five_sectors(p):
    c12, c23 = ray(p["R12"]), ray(p["R23"])
    return [(None, Fraction(-1), float_fraction(p["M4"])), (Fraction(-1), Fraction(1), float_fraction(p["M0"])),
            (Fraction(1), c12, float_fraction(p["M1"])), (c12, c23, float_fraction(p["M2"])), (c23, None, float_fraction(p["M3"]))]


def haigh_walk(ctx, a, m, sectors, R_goal):
    """returns (transformed amplitude, positive_all_the_way condition); a > 0 assumed.
    All comparisons of c = m/a with a constant t are written as m ? t*a (a > 0)."""
    cg = ray(R_goal)
    pos = []
    for _ in range(len(sectors) + 1):
        # position relative to the goal ray
        if m == cg * a:
            return a, True
        up = bool(m < cg * a)        # c < cg: walk towards larger c
        # sector containing c in the direction of travel
        sec = None
        for lo, hi, M in (sectors if up else reversed(sectors)):
            if up:
                inside = (lo is None or m >= lo * a) and (hi is None or m < hi * a)
            else:
                inside = (lo is None or m > lo * a) and (hi is None or m <= hi * a)
            if inside:
                sec = (lo, hi, M)
                break
        if sec is None:
            raise RuntimeError("no sector")
        lo, hi, M = sec
        if up:
            target = cg if (hi is None or cg <= hi) else hi
        else:
            target = cg if (lo is None or cg >= lo) else lo
        a2 = (a + M * m) / (1 + M * target)
        if not bool(a2 > 0):
            return a2, False          # iso-damage amplitude does not stay positive: outside the property
        a, m = a2, target * a2
    raise RuntimeError("walk did not terminate")


def cases(tier):
    q = tier == "quick"
    out = []
    sens = MS_SENS[:5] if q else MS_SENS
    for (M, M2) in sens:
        for Rg in R_GOALS:
            out.append({"kind": "goodman", "M": M, "M2": M2, "Rg": Rg, "_weight": 3})
    for i, p in enumerate(FIVE[:2] if q else FIVE):
        for R1 in (R_GOALS[::2] if q else R_GOALS):
            for R2 in (R_GOALS[1::2] + [R1, -math.inf] if q else R_GOALS):
                out.append({"kind": "five", "set": i, "R1": R1, "R2": R2, "_weight": 8})
    for (M, M2) in (sens[1:3] if q else sens):
        for R1 in (R_GOALS[::3] if q else R_GOALS):
            for R2 in (R_GOALS[1::3] if q else R_GOALS):
                out.append({"kind": "compose", "M": M, "M2": M2, "R1": R1, "R2": R2, "_weight": 6})
    for (M, M2) in sens[1:3]:
        for Rg in R_GOALS:
            out.append({"kind": "monotone", "M": M, "M2": M2, "Rg": Rg, "_weight": 9})
            out.append({"kind": "accessor", "M": M, "M2": M2, "Rg": Rg, "_weight": 9})
    for Rg in ((-1.0, 0.375) if q else (-1.0, 0.0, 0.375, -math.inf, 0.9)):
        for share in ("R12", "R23"):
            out.append({"kind": "five_multi", "Rg": Rg, "share": share, "_weight": 9})
    for (M, M2) in sens[1:3]:
        for Rg in (-1.0, -0.5, 0.0, 0.5):
            out.append({"kind": "matrix", "M": M, "M2": M2, "Rg": Rg, "_weight": 2})
            # range/mean layout whose classes at mean 0 are already at R = -1: their ranges fall on class edges
            out.append({"kind": "matrix", "M": M, "M2": M2, "Rg": Rg, "layout": "range_mean", "_weight": 2})
            out.append({"kind": "matrix", "M": M, "M2": M2, "Rg": Rg, "layout": "range_mean0", "_weight": 2})
            # classes listed in another order than the sorted product, and a matrix with only some of its classes
            out.append({"kind": "matrix", "M": M, "M2": M2, "Rg": Rg, "rows": "shuffled", "_weight": 2})
            out.append({"kind": "matrix", "M": M, "M2": M2, "Rg": Rg, "layout": "range_mean", "rows": "sparse", "_weight": 2})
            # a further index level (two nodes), rows sorted and in another order (seed C12-7: that branch paired by position)
            out.append({"kind": "matrix", "M": M, "M2": M2, "Rg": Rg, "extra": True, "_weight": 3})
            out.append({"kind": "matrix", "M": M, "M2": M2, "Rg": Rg, "extra": True, "rows": "shuffled18", "_weight": 3})
            out.append({"kind": "matrix", "M": M, "M2": M2, "Rg": Rg, "layout": "range_mean", "extra": True, "rows": "shuffled18", "_weight": 3})
    return out


def _apply_canary(ctx):
    cn = ctx.canary
    T = MS._SegmentTransformer
    if cn == "goal_inf_denominator":
        ctx.patch(T, "transform_cycles_in_interval",
                  mutated(T.transform_cycles_in_interval, "trans_amp = (amp + M * mean) / (1. - M)", "trans_amp = (amp + M * mean) / (1. + M)"))
    elif cn == "interval_open_border":
        ctx.patch(T, "transform_cycles_in_interval",
                  mutated(T.transform_cycles_in_interval, "closed='both'", "closed='right'"))
    elif cn == "left_segments_wrong_order":
        ctx.patch(T, "segments_left_from_R_goal",
                  mutated(T.segments_left_from_R_goal, "sort_values(ascending=True)", "sort_values(ascending=False)"))
    elif cn == "rebin_drops_lowest":
        X = MS.MeanstressTransformMatrix
        ctx.patch(X, "_rebin_results", mutated(X._rebin_results, "op_left = op.ge if iv.left == 0.0 else op.gt", "op_left = op.gt"))
    elif cn is not None:
        raise RuntimeError("unknown canary " + cn)


CANARIES = [
    {"name": "goal_inf_denominator", "cases": [{"kind": "goodman", "M": 0.3, "M2": 0.1, "Rg": -math.inf}]},
    {"name": "left_segments_wrong_order", "cases": [{"kind": "five", "set": 0, "R1": 0.9, "R2": 0.9}, {"kind": "five", "set": 0, "R1": -1.0, "R2": 0.9}]},
    {"name": "interval_open_border", "cases": [{"kind": "goodman", "M": 0.3, "M2": 0.1, "Rg": -1.0}]},
    {"name": "rebin_drops_lowest", "cases": [{"kind": "matrix", "M": 0.3, "M2": 0.1, "Rg": -1.0}]},
]
QUICK_CANARIES = 4


def _arr(ctx, vals):
    return np.array(vals, dtype=object if ctx.sym else np.float64)


def _goodman(ctx, a, m, M, M2, Rg):
    r = MS.fkm_goodman(_arr(ctx, a), _arr(ctx, m), M, M2, Rg)
    return list(r)


def run(ctx, case):
    _apply_canary(ctx)
    kind = case["kind"]
    if kind == "matrix":
        return _run_matrix(ctx, case)
    a = ctx.real("a")
    m = ctx.real("m")
    ctx.assume(a > 0)
    ctx.hint(sym_and(a <= 16, m <= 64, m >= -64))
    if kind == "goodman":
        M, M2, Rg = case["M"], case["M2"], case["Rg"]
        got = _goodman(ctx, [a], [m], M, M2, Rg)[0]
        exp, pos = haigh_walk(ctx, a, m, goodman_sectors(M, M2), Rg)
        ctx.assume(pos)
        on_target = bool(m == ray(Rg) * a)
        ctx.signature((kind, M, M2, Rg, repr(exp) if not ctx.sym else str(exp.e.sexpr())[:80] if isinstance(exp, SymReal) else exp),
                      trivial=on_target)
        ctx.claim(ctx.close(got, exp), "goodman.formula", (got, exp))
        if on_target:
            ctx.claim(ctx.close(got, a), "on_target_unchanged", (got, a))
        return {"amplitude": got}
    if kind == "five":
        # general gap-free diagram: only the clauses the property states for it (no closed-form formula)
        p, R1, R2 = FIVE[case["set"]], case["R1"], case["R2"]
        secs = five_sectors(p)

        def T(aa, mm, R):
            return list(MS.five_segment_correction(_arr(ctx, [aa]), _arr(ctx, [mm]), p["M0"], p["M1"], p["M2"], p["M3"],
                                                   p["M4"], p["R12"], p["R23"], R))[0]
        _, pos1 = haigh_walk(ctx, a, m, secs, R1)
        _, pos2 = haigh_walk(ctx, a, m, secs, R2)
        ctx.assume(sym_and(pos1, pos2))
        df = pd.DataFrame({"range": _arr(ctx, [2 * a]), "mean": _arr(ctx, [m])})
        hd = MS.HaighDiagram.five_segment(pd.Series(p))
        first = hd.transform(df, R1)
        a1, m1 = list(first["range"])[0] / 2, list(first["mean"])[0]
        # the same diagram object asked again (another target in between) answers as the first time
        hd.transform(df, R2)
        again = hd.transform(df, R1)
        ctx.claim(ctx.close([list(again["range"])[0], list(again["mean"])[0]], [2 * a1, m1]), "idempotent", ("same diagram object asked again", list(again["range"])))
        ctx.assume(a1 > 0)
        a12 = T(a1, m1, R2)
        direct = T(a, m, R2)
        on_target = bool(m == ray(R2) * a)
        ctx.signature((kind, case["set"], R1, R2, str(direct.e.sexpr())[:60] if isinstance(direct, SymReal) else 0), trivial=on_target)
        ctx.claim(ctx.close(a12, direct), "compose", (a12, direct))
        if R1 == R2:
            ctx.claim(ctx.close(a12, T(a, m, R1)), "idempotent", (a12,))
        if on_target:
            ctx.claim(ctx.close(direct, a), "on_target_unchanged", (direct, a))
        return {"via": a12, "direct": direct}
    if kind == "five_multi":
        # several elements with their own five-segment diagram (parameter DataFrame): the accessor gives every element what
        # the plain function gives with that element's parameters
        Rg = case["Rg"]
        prm = {1: (0.5, 0.25, 0.125, 0.0625, 0.0, 0.25, 0.5), 2: (0.5, 0.25, 0.125, 0.0625, 0.0, 0.25, 0.75)}
        if case.get("share") == "R23":
            prm = {1: (0.5, 0.25, 0.125, 0.0625, 0.0, 0.25, 0.75), 2: (0.5, 0.25, 0.125, 0.0625, 0.0, 0.5, 0.75)}
        keys = ["M0", "M1", "M2", "M3", "M4", "R12", "R23"]
        haigh = pd.DataFrame(list(prm.values()), columns=keys, index=pd.Index(list(prm), name="element_id"))
        coll = pd.DataFrame({"from": _arr(ctx, [m - a]), "to": _arr(ctx, [m + a])}, index=pd.Index([0], name="cycle_number"))
        res = coll.meanstress_transform.five_segment(haigh.copy(), Rg).amplitude
        out = {}
        for el, pr in prm.items():
            exp = list(MS.five_segment_correction(_arr(ctx, [a]), _arr(ctx, [m]), *pr, Rg))[0]
            got = list(res.xs(el, level="element_id"))
            ctx.claim(len(got) == 1, "accessor_equals_function", (el, got))
            ctx.claim(ctx.close(got[0], exp), "accessor_equals_function", (el, got, exp))
            out["e%d" % el] = got[0]
        ctx.signature((kind, Rg, case.get("share"), str(out["e2"].e.sexpr())[:60] if isinstance(out["e2"], SymReal) else 0))
        return out
    if kind == "compose":
        M, M2, R1, R2 = case["M"], case["M2"], case["R1"], case["R2"]
        secs = goodman_sectors(M, M2)
        e1, pos1 = haigh_walk(ctx, a, m, secs, R1)
        ctx.assume(pos1)
        a1 = _goodman(ctx, [a], [m], M, M2, R1)[0]
        m1 = ray(R1) * a1
        e2, pos2 = haigh_walk(ctx, a, m, secs, R2)
        ctx.assume(pos2)
        e12, pos12 = haigh_walk(ctx, e1, ray(R1) * e1, secs, R2)
        ctx.assume(pos12)
        a12 = _goodman(ctx, [a1], [m1], M, M2, R2)[0]
        direct = _goodman(ctx, [a], [m], M, M2, R2)[0]
        ctx.signature((kind, M, M2, R1, R2, str(direct.e.sexpr())[:60] if isinstance(direct, SymReal) else 0))
        if R1 == R2:
            ctx.claim(ctx.close(a12, a1), "idempotent", (a12, a1))
        ctx.claim(ctx.close(a12, direct), "compose", (a12, direct))
        return {"via": a12, "direct": direct}
    if kind == "monotone":
        M, M2, Rg = case["M"], case["M2"], case["Rg"]
        a2 = ctx.real("a2")
        ctx.assume(a2 >= a)
        secs = goodman_sectors(M, M2)
        _, p1 = haigh_walk(ctx, a, m, secs, Rg)
        _, p2 = haigh_walk(ctx, a2, m, secs, Rg)
        ctx.assume(sym_and(p1, p2))
        t = _goodman(ctx, [a, a2], [m, m], M, M2, Rg)
        ctx.signature((kind, M, M2, Rg, str(t[0].e.sexpr())[:50] if isinstance(t[0], SymReal) else 0,
                       str(t[1].e.sexpr())[:50] if isinstance(t[1], SymReal) else 0))
        ctx.claim(t[0] <= t[1] * (1 + 1e-12) if ctx.sym else t[0] <= t[1] * (1 + 1e-9) + 1e-12, "monotone_in_amplitude", t)
        return {"t": t}
    if kind == "accessor":
        M, M2, Rg = case["M"], case["M2"], case["Rg"]
        a2, m2 = ctx.real("a2"), ctx.real("m2")
        ctx.assume(a2 > 0)
        f = _goodman(ctx, [a, a2], [m, m2], M, M2, Rg)
        df = pd.DataFrame({"range": _arr(ctx, [2 * a, 2 * a2]), "mean": _arr(ctx, [m, m2])})
        res = df.meanstress_transform.fkm_goodman(pd.Series({"M": M, "M2": M2}), Rg)
        amp = list(res.amplitude)
        ctx.signature((kind, M, M2, Rg, [str(x.e.sexpr())[:40] if isinstance(x, SymReal) else 0 for x in f]))
        ctx.claim(ctx.close(amp, f), "accessor_equals_function", (amp, f))
        # the same cycles given as from/to (both orientations)
        df2 = pd.DataFrame({"from": _arr(ctx, [m - a, m2 + a2]), "to": _arr(ctx, [m + a, m2 - a2])})
        res2 = df2.meanstress_transform.fkm_goodman(pd.Series({"M": M, "M2": M2}), Rg)
        ctx.claim(ctx.close(list(res2.amplitude), f), "accessor_equals_function", (list(res2.amplitude), f))
        return {"amp": amp}
    raise RuntimeError("unknown kind")


def _run_matrix(ctx, case):
    M, M2, Rg = case["M"], case["M2"], case["Rg"]
    if case.get("layout") == "range_mean0":
        # every class sits at mean 0 (R = -1): for R_goal = -1 the ranges 2, 4, 6 are exactly the class edges of the result
        fr = pd.IntervalIndex.from_breaks([1.0, 3.0, 5.0, 7.0], name="range")
        to = pd.IntervalIndex.from_breaks([-1.0, 1.0], name="mean")
    elif case.get("layout") == "range_mean":
        fr = pd.IntervalIndex.from_breaks([1.0, 3.0, 5.0, 7.0], name="range")        # ranges 2, 4, 6
        to = pd.IntervalIndex.from_breaks([-3.0, -1.0, 1.0, 3.0], name="mean")       # means -2, 0, 2
    else:
        fr = pd.IntervalIndex.from_breaks([-2.0, 0.0, 2.0, 4.0], name="from")
        to = pd.IntervalIndex.from_breaks([-2.0, 0.0, 2.0, 4.0], name="to")      # diagonal classes have zero range
    extra = bool(case.get("extra"))
    idx = pd.MultiIndex.from_product([fr, to, pd.Index([7, 3], name="node_id")] if extra else [fr, to])
    rows = {"shuffled": [3, 0, 8, 5, 1, 7, 2, 6, 4], "sparse": [0, 2, 4, 7],
            "shuffled18": [11, 3, 0, 16, 8, 5, 13, 1, 7, 17, 2, 10, 6, 14, 4, 9, 15, 12]}.get(case.get("rows"))
    if rows is not None:
        idx = idx[[r for r in rows if r < len(idx)]]       # classes listed in another order / only some classes present
    counts = [ctx.real("n%d" % i) for i in range(len(idx))]
    for c in counts:
        ctx.assume(c >= 0)
    ser = pd.Series(np.array(counts, dtype=object if ctx.sym else np.float64), index=idx, name="cycles")
    res = ser.meanstress_transform.fkm_goodman(pd.Series({"M": M, "M2": M2}), Rg)
    resp = res.to_pandas() if hasattr(res, "to_pandas") else res
    out = list(resp)
    # histogram interface == plain function: every class lands in the result class that contains the transformed range
    # of its mid point (the class mids and the diagram are concrete, so the ranges are plain floats from the real function)
    lv = {n: idx.get_level_values(n) for n in idx.names}
    if "from" in lv:
        amp0, mean0 = np.abs(lv["from"].mid - lv["to"].mid) / 2., (lv["from"].mid + lv["to"].mid) / 2.
    else:
        amp0, mean0 = lv["range"].mid / 2., lv["mean"].mid
    with ctx.suspended():
        rng_t = 2. * np.asarray(MS.fkm_goodman(np.asarray(amp0, dtype=float), np.asarray(mean0, dtype=float), M, M2, Rg), dtype=float)
    # (the plain function and the accessor round differently in the last place, and the largest range *is* the last class
    #  limit: a transformed range within 1e-9 of a class limit may be counted on either side)
    tol = 1e-9 * max(1.0, float(np.max(np.abs(rng_t)))) if len(rng_t) else 0.0
    node_in = list(lv["node_id"]) if extra else [None] * len(idx)
    node_out = list(resp.index.get_level_values("node_id")) if extra else [None] * len(resp)
    if extra:
        ctx.claim(sorted(set(node_out)) == sorted(set(node_in)), "matrix.class_placement", ("node ids of the result", node_out))
    for j, iv in enumerate(resp.index.get_level_values("range")):
        mine = [i for i in range(len(idx)) if node_in[i] == node_out[j]]
        sure = [i for i in mine if iv.left + tol < rng_t[i] < iv.right - tol or (iv.left == 0.0 and -tol <= rng_t[i] < iv.right - tol)]
        maybe = [i for i in mine if iv.left - tol <= rng_t[i] <= iv.right + tol]
        lo = hi = 0
        for i in sure:
            lo = counts[i] + lo
        for i in maybe:
            hi = counts[i] + hi
        if ctx.sym:
            ok = sym_and(out[j] >= lo, out[j] <= hi)
        else:       # float sums in another order may differ in the last place
            slack = 1e-9 * (1.0 + abs(float(hi)))
            ok = (out[j] >= lo - slack) and (out[j] <= hi + slack)
        ctx.claim(ok, "matrix.class_placement", (str(iv), sure, maybe, out[j]))
    tot_in = 0
    for c in counts:
        tot_in = c + tot_in
    tot_out = 0
    for c in out:
        tot_out = c + tot_out
    ctx.signature((kind_sig(case), len(out)))
    ctx.claim(ctx.eq(tot_out, tot_in), "matrix.cycles_conserved", (out, counts))
    return {"out": out}


def kind_sig(case):
    return (case["kind"], case["M"], case["M2"], case["Rg"], case.get("layout"), case.get("rows"))
