"""C08  Woehler curve: cycles/load are inverses with the stated scatter semantics (log-domain arithmetic)."""
import itertools
import math

import numpy as np
import pandas as pd
import z3

import pylife.materiallaws.woehlercurve as WC
import pylife.utils.functions as FU

from ..sym import sym_and, sym_or, sym_not, SymReal, LogReal, Unsupported, is_sym
from ..util import eq_struct, mutated
from .. import npfacade

PROPERTY = "C08"
ENCODED = ["pylife.materiallaws.woehlercurve:WoehlerCurve._validate",
           "pylife.materiallaws.woehlercurve:WoehlerCurve.transform_to_failure_probability",
           "pylife.materiallaws.woehlercurve:WoehlerCurve.basquin_cycles",
           "pylife.materiallaws.woehlercurve:WoehlerCurve.basquin_load",
           "pylife.materiallaws.woehlercurve:WoehlerCurve._make_k",
           "pylife.materiallaws.woehlercurve:WoehlerCurve.miner_original",
           "pylife.materiallaws.woehlercurve:WoehlerCurve.miner_elementary",
           "pylife.materiallaws.woehlercurve:WoehlerCurve.miner_haibach",
           "pylife.utils.functions:scattering_range_to_std", "pylife.utils.functions:std_to_scattering_range"]
STUBS = ["np/pd facades in pylife.materiallaws.woehlercurve and pylife.utils.functions (asarray/full_like keep object dtype; "
         "isfinite/power/log10 element-wise); scipy.stats.norm.ppf runs for real on the concrete failure probabilities"]
ASSUMPTIONS = ["all positive quantities lie in [1e-12, 1e12] (scatter ranges in [1, 1e3]) so that float arithmetic cannot overflow",
               "positive quantities (SD, ND, TN, TS, load, cycles) are symbolic in the log domain: the value is 10**e with e a real "
               "symbol, so products, quotients and powers with concrete exponents are linear arithmetic on exponents (exact)",
               "slopes k_1, k_2 are concrete and enumerated (quick) and additionally symbolic with 1 < k_1 <= 20, k_1 <= k_2 <= k_1 + 20 (thorough); failure probabilities are concrete",
               "clauses marked ~ carry a tolerance of 1e-9 in the exponent because the code multiplies by fl(-1/k) resp. uses "
               "the literal 0.39015207303618954 for 1/(2*ppf(0.9))"]
OUTSIDE = "symbolic slopes; Series/DataFrame curves with index levels (broadcasting is C13); float rounding"
RULE = ("one evaluation = one explored path (position of load / cycles relative to the knee of the transformed curve); "
        "distinct = distinct (clause, parameters, path); non-trivial = every path")
LABELS = ["load(cycles(S))~S", "cycles(load(N))~N", "non_increasing", "knee", "slopes", "miner_variants", "original_untouched",
          "grow_with_probability", "N90/N10~TN", "SD90/SD10~TS", "transform_group_law", "transform_native_identity",
          "std<->T", "broadcast_equals_scalar"]
RTOL = 1e-9
ATOL = 1e-12
TOLE = 1e-9       # tolerance on exponents

K1 = [3.0, 5.0, 7.5]
PROBS = [0.025, 0.1, 0.5, 0.9, 0.975]


def _k2s(k1):
    return [k1, 2 * k1 - 1, k1 + 2, math.inf]


def bounds(tier):
    return {"k_1": K1, "k_2": "k_1, 2k_1-1, k_1+2, inf", "failure_probabilities": PROBS}


def options(tier):
    return {"timeout_ms": 10000 if tier == "quick" else 60000}


def prepare(tier):
    npfacade.selftest()


def cases(tier):
    q = tier == "quick"
    out = []
    for k1 in (K1[:2] if q else K1):
        for k2 in _k2s(k1):
            for p in ((0.5, 0.1) if q else PROBS):
                out.append({"kind": "inverse", "k1": k1, "k2": k2, "p": p, "native": 0.5, "_weight": 3})
            out.append({"kind": "inverse", "k1": k1, "k2": k2, "p": 0.9, "native": 0.1, "_weight": 3})
            # a design curve given for 10 % queried at the default 50 %
            out.append({"kind": "inverse", "k1": k1, "k2": k2, "p": 0.5, "native": 0.1, "_weight": 3})
            out.append({"kind": "monotone", "k1": k1, "k2": k2, "native": 0.1, "_weight": 4})
            out.append({"kind": "monotone", "k1": k1, "k2": k2, "_weight": 4})
            out.append({"kind": "broadcast", "k1": k1, "k2": k2, "_weight": 4})
        out.append({"kind": "miner", "k1": k1, "_weight": 2})
        # Miner variants of a curve given for another failure probability (seed C08-5: the variant lost the key)
        for nat in ((0.1,) if q else (0.1, 0.9, 0.025)):
            out.append({"kind": "miner", "k1": k1, "native": nat, "_weight": 2})
        for (p1, p2) in (((0.1, 0.9), (0.5, 0.025)) if q else itertools.permutations(PROBS, 2)):
            out.append({"kind": "scatter", "k1": k1, "k2": 2 * k1 - 1, "p1": p1, "p2": p2, "_weight": 3})
    out.append({"kind": "std"})
    if not q:
        # symbolic slopes (nonlinear arithmetic on exponents): k_1 > 1 and k_2 - k_1 >= 0 symbolic
        for p in (0.5, 0.1):
            out.append({"kind": "inverse", "k1": "sym", "k2": "sym", "p": p, "native": 0.5, "_weight": 5})
            out.append({"kind": "inverse", "k1": "sym", "k2": math.inf, "p": p, "native": 0.5, "_weight": 5})
        out.append({"kind": "monotone", "k1": "sym", "k2": "sym", "_weight": 5})
    return out


def _apply_canary(ctx):
    cn = ctx.canary
    W = WC.WoehlerCurve
    if cn == "nd_shift_slope":
        ctx.patch(W, "transform_to_failure_probability",
                  mutated(W.transform_to_failure_probability, "np.power(SD[SD != 0]/obj.SD, -obj.k_1)", "np.power(SD[SD != 0]/obj.SD, -obj.k_2)"))
    elif cn == "load_uses_k1_only":
        ctx.patch(W, "basquin_load", mutated(W.basquin_load, "k = self._make_k(-cyc, -wc.ND, wc)", "k = self._make_k(cyc, wc.ND, wc)"))
    elif cn == "haibach_slope":
        ctx.patch(W, "miner_haibach", mutated(W.miner_haibach, "2. * self._obj.k_1 - 1.", "2. * self._obj.k_1 - 2."))
    elif cn == "transform_sign":
        ctx.patch(W, "transform_to_failure_probability",
                  mutated(W.transform_to_failure_probability, "SD = np.asarray(obj.SD / 10**((native_ppf-goal_ppf)*scattering_range_to_std(obj.TS)))",
                          "SD = np.asarray(obj.SD / 10**((goal_ppf-native_ppf)*scattering_range_to_std(obj.TS)))"))
    elif cn is not None:
        raise RuntimeError("unknown canary " + cn)


CANARIES = [
    {"name": "load_uses_k1_only", "cases": [{"kind": "inverse", "k1": 3.0, "k2": 5.0, "p": 0.5, "native": 0.5}]},
    {"name": "haibach_slope", "cases": [{"kind": "miner", "k1": 3.0}]},
    {"name": "transform_sign", "cases": [{"kind": "scatter", "k1": 3.0, "k2": 5.0, "p1": 0.1, "p2": 0.9}]},
    {"name": "nd_shift_slope", "cases": [{"kind": "scatter", "k1": 3.0, "k2": 5.0, "p1": 0.1, "p2": 0.9}]},
]
QUICK_CANARIES = 4


def _setup(ctx):
    if ctx.sym:
        ctx.patch(WC, "np", npfacade.FACADE)
        ctx.patch(WC, "pd", npfacade.PD_FACADE)
        ctx.patch(FU, "np", npfacade.FACADE)

        def hook(b, e):
            if isinstance(b, (int, float)) and float(b) == 10.0 and isinstance(e, SymReal):
                return LogReal(e.e)
            raise Unsupported("power %r ** %r" % (b, e))
        ctx.eng.power_hook = hook


def _lg(x):
    """exponent of a positive quantity (log10)"""
    if isinstance(x, LogReal):
        return SymReal(x.e)
    if isinstance(x, np.ndarray):
        x = x.reshape(-1)[0] if x.size == 1 else x
        if isinstance(x, LogReal):
            return SymReal(x.e)
    return math.log10(float(x))


def _scalar(x):
    if isinstance(x, np.ndarray):
        return x.reshape(-1)[0] if x.size == 1 else x
    if isinstance(x, pd.Series):
        return x.iloc[0]
    return x


def _isinf(x):
    x = _scalar(x)
    return isinstance(x, (float, np.floating)) and math.isinf(x)


def _close_log(ctx, a, b, tol=TOLE):
    """|log10(a) - log10(b)| <= tol for positive a, b"""
    a, b = _scalar(a), _scalar(b)
    if _isinf(a) or _isinf(b):
        return _isinf(a) and _isinf(b)
    la, lb = _lg(a), _lg(b)
    return abs(la - lb) <= tol * (1 + abs(lb))


def _bounded(ctx, name, lo=1e-12, hi=1e12):
    """a positive symbolic quantity within the range in which float arithmetic cannot overflow"""
    x = ctx.logreal(name)
    ctx.assume(sym_and(x >= lo, x <= hi))
    return x


def _curve(ctx, k1, k2, native=0.5, with_scatter=True):
    SD, ND = _bounded(ctx, "SD"), _bounded(ctx, "ND")
    d = {"k_1": k1, "k_2": k2, "SD": SD, "ND": ND}
    if with_scatter:
        TN, TS = _bounded(ctx, "TN", 1.0, 1e3), _bounded(ctx, "TS", 1.0, 1e3)
        d["TN"], d["TS"] = TN, TS
    d["failure_probability"] = native
    return pd.Series(d, dtype=object if ctx.sym else np.float64), d


def run(ctx, case):
    _apply_canary(ctx)
    _setup(ctx)
    kind = case["kind"]
    ctx.signature((kind,) + tuple(sorted((k, str(v)) for k, v in case.items() if not k.startswith("_"))))
    if kind == "std":
        T = _bounded(ctx, "T", 1.0, 1e6)
        s = FU.scattering_range_to_std(T)
        back = FU.std_to_scattering_range(s)
        ctx.claim(_close_log(ctx, back, T), "std<->T", (s, back))
        # T = 10**(2 z_0.9 s)
        z09 = 1.2815515655446004
        exp = 2 * z09 * s
        ctx.claim(abs(_lg(T) - exp) <= TOLE * (1 + abs(exp)) if ctx.sym else abs(math.log10(T) - exp) <= 1e-9 * (1 + abs(exp)),
                  "std<->T", (s,))
        return {"s": s}

    k1, k2 = case["k1"], case.get("k2", math.inf)
    if k1 == "sym":
        k1 = ctx.real("k_1")
        ctx.assume(sym_and(k1 > 1, k1 <= 20))
        ctx.hint(sym_or(k1 == 3, k1 == 5))
    if isinstance(k2, str):
        dk = ctx.real("dk")
        ctx.assume(sym_and(dk >= 0, dk <= 20))
        ctx.hint(sym_or(dk == 0, dk == 2))
        k2 = k1 + dk
    if kind == "inverse":
        wc_s, d = _curve(ctx, k1, k2, native=case["native"])
        p = case["p"]
        S = _bounded(ctx, "S")
        N = wc_s.woehler.cycles(S, p)
        tr = wc_s.woehler.transform_to_failure_probability(p).to_pandas()
        out = {}
        if not _isinf(N):
            S2 = wc_s.woehler.load(_scalar(N), p)
            ctx.claim(_close_log(ctx, S2, S), "load(cycles(S))~S", (N, S2))
            out["S2"] = _scalar(S2)
        else:
            # infinite life only for k_2 = inf at or below the endurance limit
            k2inf = isinstance(k2, float) and math.isinf(k2)
            ctx.claim(k2inf and bool(S <= tr.SD), "slopes", "infinite life although k_2 finite or load above SD")
        Nc = _bounded(ctx, "N")
        L = wc_s.woehler.load(Nc, p)
        N2 = wc_s.woehler.cycles(_scalar(L), p)
        if isinstance(k2, float) and math.isinf(k2) and bool(Nc > tr.ND):
            # beyond the knee of a curve with k_2 = inf the life is infinite: the load stays at the endurance limit
            ctx.claim(_close_log(ctx, L, tr.SD), "cycles(load(N))~N", (L, tr.SD))
        elif not _isinf(N2):
            ctx.claim(_close_log(ctx, N2, Nc), "cycles(load(N))~N", (L, N2))
        else:
            ctx.claim(False, "cycles(load(N))~N", "infinite cycles for a finite-life request")
        # knee and slopes of the transformed curve
        Nk = wc_s.woehler.cycles(tr.SD, p)
        ctx.claim(_close_log(ctx, Nk, tr.ND), "knee", (Nk, tr.ND))
        if not _isinf(N):
            # slope: log N = log ND - k (log S - log SD) with k = k_1 above, k_2 below SD
            kk = k1 if bool(S >= tr.SD) else k2
            exp = _lg(tr.ND) - kk * (_lg(S) - _lg(tr.SD))
            ctx.claim(abs(_lg(_scalar(N)) - exp) <= TOLE * (1 + abs(exp)), "slopes", (N, exp))
        # one accessor object asked repeatedly (other load and other probability in between) answers as the first time
        acc = wc_s.woehler
        first = acc.cycles(S, p)
        acc.cycles(S * 2, 0.5)
        acc.load(Nc, 0.5)
        again = acc.cycles(S, p)
        if _isinf(first) or _isinf(again):
            ctx.claim(_isinf(first) and _isinf(again) and _isinf(N), "load(cycles(S))~S", "repeated question to the same accessor")
        else:
            ctx.claim(sym_and(_close_log(ctx, again, first), _close_log(ctx, first, N)), "load(cycles(S))~S", ("repeated question to the same accessor", first, again))
        out["N"] = _scalar(N)
        out["N2"] = _scalar(N2)
        out["L"] = _scalar(L)
        return out

    if kind == "monotone":
        wc_s, d = _curve(ctx, k1, k2, native=case.get("native", 0.5))
        S1, S2 = _bounded(ctx, "S1"), _bounded(ctx, "S2")
        ctx.assume(S1 <= S2)
        N1, N2 = _scalar(wc_s.woehler.cycles(S1)), _scalar(wc_s.woehler.cycles(S2))
        if _isinf(N1):
            ok = True
        elif _isinf(N2):
            ok = False
        else:
            ok = _lg(N1) >= _lg(N2) - TOLE
        ctx.claim(ok, "non_increasing", (N1, N2))
        # allowable cycles grow with the failure probability
        Ns = [_scalar(wc_s.woehler.cycles(S1, 0.1)), _scalar(wc_s.woehler.cycles(S1)), _scalar(wc_s.woehler.cycles(S1, 0.9))]
        for Na, Nb in zip(Ns[:-1], Ns[1:]):      # 10 % <= default (50 %) <= 90 %
            if _isinf(Nb):
                ok = True
            elif _isinf(Na):
                ok = False
            else:
                ok = _lg(Na) <= _lg(Nb) + TOLE
            ctx.claim(ok, "grow_with_probability", (Na, Nb))
        return {"N1": N1, "N2": N2, "Ns": Ns}

    if kind == "broadcast":
        wc_s, d = _curve(ctx, k1, k2)
        S1, S2 = _bounded(ctx, "S1"), _bounded(ctx, "S2")
        both = wc_s.woehler.cycles(np.array([S1, S2], dtype=object if ctx.sym else np.float64))
        one = [_scalar(wc_s.woehler.cycles(S1)), _scalar(wc_s.woehler.cycles(S2))]
        ok = len(both) == 2
        ctx.claim(ok, "broadcast_equals_scalar")
        for a, b in zip(list(both), one):
            ctx.claim(_close_log(ctx, a, b, 1e-12), "broadcast_equals_scalar", (a, b))
        ser = pd.Series(np.array([S1, S2], dtype=object if ctx.sym else np.float64), index=pd.Index([4, 9], name="scenario"))
        viaser = wc_s.woehler.cycles(ser)
        ctx.claim(list(viaser.index) == [4, 9], "broadcast_equals_scalar", "index lost")
        for a, b in zip(list(viaser), one):
            ctx.claim(_close_log(ctx, a, b, 1e-12), "broadcast_equals_scalar", (a, b))
        return None

    if kind == "miner":
        native = case.get("native", 0.5)
        wc_s, d = _curve(ctx, k1, k1 + 2, native=native)
        before = dict(wc_s)
        acc = wc_s.woehler
        variants = {"original": (acc.miner_original(), math.inf), "elementary": (acc.miner_elementary(), k1),
                    "haibach": (acc.miner_haibach(), 2 * k1 - 1)}
        for name, (v, exp_k2) in variants.items():
            pdv = v.to_pandas()
            ctx.claim(float(pdv.k_2) == float(exp_k2), "miner_variants", (name, pdv.k_2))
            ctx.claim(float(pdv.k_1) == float(k1), "miner_variants", name)
            for key in ("SD", "ND", "TN", "TS"):
                ctx.claim(_close_log(ctx, pdv[key], d[key], 1e-12), "miner_variants", (name, key))
            ctx.claim(float(pdv.get("failure_probability", 0.5)) == float(native), "miner_variants", (name, "failure_probability"))
            ctx.claim(float(v.failure_probability) == float(native), "miner_variants", (name, "failure_probability attribute"))
            # "only change k_2": above the knee the variant is the curve it was made from, at every probability
            Sv = _bounded(ctx, "Sv_" + name)
            for p in (0.5, 0.9):
                tr = acc.transform_to_failure_probability(p).to_pandas()
                if bool(Sv > tr.SD):
                    ctx.claim(_close_log(ctx, _scalar(v.cycles(Sv, p)), _scalar(acc.cycles(Sv, p))), "miner_variants", (name, "cycles above the knee", p))
        ctx.claim(float(wc_s.k_2) == float(k1 + 2) and set(wc_s.index) == set(before), "original_untouched", dict(wc_s))
        ctx.claim(float(acc.k_2) == float(k1 + 2), "original_untouched")
        return None

    if kind == "scatter":
        wc_s, d = _curve(ctx, k1, k2, native=0.5)
        p1, p2 = case["p1"], case["p2"]
        acc = wc_s.woehler
        t10, t90 = acc.transform_to_failure_probability(0.1).to_pandas(), acc.transform_to_failure_probability(0.9).to_pandas()
        ctx.claim(abs((_lg(t90.SD) - _lg(t10.SD)) - _lg(d["TS"])) <= TOLE * (1 + abs(_lg(d["TS"]))), "SD90/SD10~TS", (t10.SD, t90.SD))
        # N_90/N_10 at a load in the finite-life range of both curves
        S = _bounded(ctx, "S")
        ctx.assume(sym_and(S >= t10.SD, S >= t90.SD))
        N10, N90 = _scalar(acc.cycles(S, 0.1)), _scalar(acc.cycles(S, 0.9))
        ctx.claim(abs((_lg(N90) - _lg(N10)) - _lg(d["TN"])) <= TOLE * (1 + abs(_lg(d["TN"]))), "N90/N10~TN", (N10, N90))
        # group law and identity
        a = acc.transform_to_failure_probability(p1).transform_to_failure_probability(p2).to_pandas()
        b = acc.transform_to_failure_probability(p2).to_pandas()
        for key in ("SD", "ND"):
            ctx.claim(_close_log(ctx, a[key], b[key]), "transform_group_law", (key, a[key], b[key]))
        idn = acc.transform_to_failure_probability(0.5).to_pandas()
        for key in ("SD", "ND"):
            ctx.claim(_close_log(ctx, idn[key], d[key], 1e-12), "transform_native_identity", (key, idn[key]))
        return {"N10": N10, "N90": N90, "SD10": _scalar(t10.SD), "SD90": _scalar(t90.SD), "SDa": _scalar(a["SD"]), "NDa": _scalar(a["ND"])}
    raise RuntimeError("unknown kind")
