"""C16  Closed-form material laws are invertible and consistent (Hooke's law; Ramberg-Osgood algebra)."""
import numpy as np

import pylife.materiallaws.hookeslaw as HL
import pylife.materiallaws.rambgood as RG

from ..sym import sym_and, sym_or, sym_not, SymReal, Unsupported
from ..util import eq_struct, mutated
from .. import npfacade

PROPERTY = "C16"
ENCODED = ["pylife.materiallaws.true_stress_strain:true_stress", "pylife.materiallaws.true_stress_strain:true_fracture_stress",
           "pylife.materiallaws.hookeslaw:_Hookeslawcore.__init__", "pylife.materiallaws.hookeslaw:_Hookeslawcore._validateinit",
           "pylife.materiallaws.hookeslaw:HookesLaw1d.stress", "pylife.materiallaws.hookeslaw:HookesLaw1d.strain",
           "pylife.materiallaws.hookeslaw:HookesLaw2dPlaneStress.stress", "pylife.materiallaws.hookeslaw:HookesLaw2dPlaneStress.strain",
           "pylife.materiallaws.hookeslaw:HookesLaw2dPlaneStrain.__init__",
           "pylife.materiallaws.hookeslaw:HookesLaw2dPlaneStrain.stress", "pylife.materiallaws.hookeslaw:HookesLaw2dPlaneStrain.strain",
           "pylife.materiallaws.hookeslaw:HookesLaw3d.stress", "pylife.materiallaws.hookeslaw:HookesLaw3d.strain",
           "pylife.materiallaws.rambgood:RambergOsgood.strain", "pylife.materiallaws.rambgood:RambergOsgood.plastic_strain",
           "pylife.materiallaws.rambgood:RambergOsgood.tangential_compliance",
           "pylife.materiallaws.rambgood:RambergOsgood.tangential_modulus",
           "pylife.materiallaws.rambgood:RambergOsgood.delta_strain", "pylife.materiallaws.rambgood:RambergOsgood.lower_hysteresis"]
STUBS = ["Ramberg-Osgood: x**y with a non-integer exponent is an uninterpreted function pow(x, y) (the real power function "
         "has no SMT theory); np facade in pylife.materiallaws.rambgood (fabs/power element-wise on objects)"]
ASSUMPTIONS = ["floats are modelled as reals", "E > 0, -1 < nu < 1/2 symbolic; all stress / strain components symbolic",
               "Ramberg-Osgood: E, K > 0, 0 < n < 1 symbolic; only the identities that do not depend on properties of the "
               "power function beyond being a function"]
OUTSIDE = ("Newton inverses RambergOsgood.stress / delta_stress (convergence of a float iteration), 'compliance is the "
           "derivative' (calculus), strict monotonicity of the power function, the logarithmic true strain (transcendental)")
RULE = ("one evaluation = one explored path; distinct = distinct (law, clause, path signature); non-trivial = every path")
LABELS = ["hooke1d.roundtrip", "plane_stress.roundtrip", "plane_strain.roundtrip", "hooke3d.roundtrip",
          "plane_strain==3d", "plane_stress==3d", "moduli",
          "ro.odd", "ro.masing_doubled", "ro.lower_hysteresis_meets_curve", "ro.lower_hysteresis_error", "ro.modulus_reciprocal",
          "true_stress.inverse"]
RTOL = 1e-9
ATOL = 1e-12


def bounds(tier):
    return {"note": "no loop bound: every clause is a closed-form identity over symbolic parameters and components"}


def options(tier):
    return {"timeout_ms": 30000 if tier == "quick" else 120000}


def prepare(tier):
    npfacade.selftest()


def cases(tier):
    arr = [{"kind": "array_roundtrip", "law": law, "shape": list(shape)}
           for law in ("plane_stress", "plane_strain", "hooke3d") for shape in ((2,), (3, 2), (2, 3))]
    return arr + [{"kind": k} for k in ("hooke1d", "plane_stress", "plane_strain", "hooke3d", "plane_strain_vs_3d",
                                  "plane_stress_vs_3d", "moduli", "ro_odd", "ro_masing", "ro_hysteresis",
                                  "ro_modulus", "true_stress")]


def _apply_canary(ctx):
    cn = ctx.canary
    if cn == "plane_strain_nut":
        ctx.patch(HL.HookesLaw2dPlaneStrain, "__init__",
                  lambda self, E, nu: (HL.HookesLaw2dPlaneStress.__init__(self, E, nu),
                                       setattr(self, "_Et", self._E / (1 - np.power(self._nu, 2))),
                                       setattr(self, "_nut", self._nu / (1 + self._nu)))[0])
    elif cn == "hooke3d_factor":
        ctx.patch(HL.HookesLaw3d, "stress", mutated(HL.HookesLaw3d.stress, "(1 - 2 * self._nu))", "(1 - self._nu))"))
    elif cn == "ro_sign_lost":
        ctx.patch(RG.RambergOsgood, "plastic_strain",
                  mutated(RG.RambergOsgood.plastic_strain, "return signstress * np.power", "return np.power"))
    elif cn == "ro_hysteresis_half":
        ctx.patch(RG.RambergOsgood, "delta_strain", mutated(RG.RambergOsgood.delta_strain, "delta_stress/2.", "delta_stress"))
    elif cn is not None:
        raise RuntimeError("unknown canary " + cn)


CANARIES = [
    {"name": "plane_strain_nut", "cases": [{"kind": "plane_strain_vs_3d"}]},
    {"name": "hooke3d_factor", "cases": [{"kind": "hooke3d"}]},
    {"name": "ro_sign_lost", "cases": [{"kind": "ro_odd"}]},
    {"name": "ro_hysteresis_half", "cases": [{"kind": "ro_masing"}]},
]
QUICK_CANARIES = 4


def _s(x):
    """0-d arrays / numpy scalars -> python scalar objects"""
    if isinstance(x, np.ndarray) and x.ndim == 0:
        return x.item()
    return x


def _params(ctx):
    E, nu = ctx.real("E"), ctx.real("nu")
    ctx.assume(sym_and(E > 0, nu > -1, nu < 0.5))
    ctx.hint(sym_and(E <= 4, E >= 0.25))
    return E, nu


def _ro(ctx):
    if ctx.sym:
        ctx.patch(RG, "np", npfacade.FACADE)
        pw = ctx.uf("pow", 2)
        ctx.eng.power_hook = lambda b, e: pw(b, e)
    E, K, n = ctx.real("E"), ctx.real("K"), ctx.real("n")
    ctx.assume(sym_and(E > 0, K > 0, n > 0, n < 1))
    ctx.hint(sym_and(E <= 4, K <= 4, n == 0.5))
    return RG.RambergOsgood(E, K, n)


def _true_stress(ctx, case):
    """true stress = s (1 + e): the inverse s = true / (1 + e) recovers the engineering stress (algebraic part of the
    true-conversion clause; the logarithmic strain is transcendental and not encoded); scalar and array, asked twice"""
    import pylife.materiallaws.true_stress_strain as TS
    if ctx.sym:
        ctx.patch(TS, "np", npfacade.FACADE)
    dt = object if ctx.sym else np.float64
    s = [ctx.real("s%d" % i) for i in range(2)]
    e = [ctx.real("e%d" % i) for i in range(2)]
    ctx.assume(sym_and(*[x > -1 for x in e]))
    ctx.hint(sym_and(*[sym_and(x <= 4, x >= -4) for x in s + e]))
    sa, ea = np.array(s, dtype=dt), np.array(e, dtype=dt)
    r1 = list(TS.true_stress(sa, ea))
    r2 = list(TS.true_stress(sa, ea))            # same arrays again: a conversion is a function of its arguments
    r3 = TS.true_stress(s[0], e[0])
    ctx.claim(ctx.close([x / (1 + y) for x, y in zip(r1, e)], s), "true_stress.inverse", (r1,))
    ctx.claim(ctx.close(r2, r1), "true_stress.inverse", ("second call with the same arrays", r2, r1))
    ctx.claim(ctx.close(r3, r1[0]), "true_stress.inverse", ("scalar", r3))
    F, A0, Z = ctx.real("F"), ctx.real("A0"), ctx.real("Z")
    ctx.assume(sym_and(A0 > 0, Z < 1, Z >= 0))
    ctx.hint(sym_and(F <= 4, F >= -4, A0 <= 4, Z == 0.5))
    tf = TS.true_fracture_stress(F, A0, Z)
    ctx.claim(ctx.close(tf * (A0 * (1 - Z)), F), "true_stress.inverse", ("fracture stress", tf))
    return {"r1": r1, "tf": tf}


def run(ctx, case):
    _apply_canary(ctx)
    kind = case["kind"]
    ctx.signature((kind,))
    if kind == "true_stress":
        return _true_stress(ctx, case)
    if kind == "array_roundtrip":
        # the same identities for array-valued components (1-D and 2-D, incl. a leading dimension of 3)
        E, nu = _params(ctx)
        shape = tuple(case["shape"])
        ncomp = {"plane_stress": 3, "plane_strain": 3, "hooke3d": 6}[case["law"]]
        size = int(np.prod(shape))
        dt = object if ctx.sym else np.float64
        comps = [np.array([ctx.real("x%d_%d" % (c, i)) for i in range(size)], dtype=dt).reshape(shape) for c in range(ncomp)]
        law = {"plane_stress": HL.HookesLaw2dPlaneStress, "plane_strain": HL.HookesLaw2dPlaneStrain, "hooke3d": HL.HookesLaw3d}[case["law"]](E, nu)
        e = list(law.strain(*comps))
        if case["law"] == "plane_stress":
            e_in = [e[0], e[1], e[3]]
        else:
            e_in = e
        s_ = list(law.stress(*e_in))
        if case["law"] == "plane_strain":
            s_ = [s_[0], s_[1], s_[3]]
        ok = all(np.shape(a) == shape for a in s_)
        ctx.claim(ok, case["law"].replace("hooke3d", "hooke3d") + ".roundtrip", ("shape", [np.shape(a) for a in s_]))
        if ok:
            ctx.claim(ctx.close([list(np.asarray(a, dtype=dt).reshape(-1)) for a in s_], [list(c.reshape(-1)) for c in comps]),
                      case["law"] + ".roundtrip", "stress(strain) on arrays")
        # element-wise agreement with scalar calls
        first = [c.reshape(-1)[0] for c in comps]
        e0 = [_s(v) for v in law.strain(*first)]
        ctx.claim(ctx.close([np.asarray(a, dtype=dt).reshape(-1)[0] for a in e], e0), case["law"] + ".roundtrip", "array == scalar")
        return None
    if kind == "hooke1d":
        E = ctx.real("E")
        ctx.assume(E > 0)
        x = ctx.real("x")
        law = HL.HookesLaw1d(E)
        a = _s(law.stress(law.strain(x)))
        b = _s(law.strain(law.stress(x)))
        ctx.claim(ctx.close([a, b], [x, x]), "hooke1d.roundtrip", (a, b))
        return {"a": a, "b": b}
    if kind in ("plane_stress", "plane_strain"):
        E, nu = _params(ctx)
        law = (HL.HookesLaw2dPlaneStress if kind == "plane_stress" else HL.HookesLaw2dPlaneStrain)(E, nu)
        x = [ctx.real("x%d" % i) for i in range(3)]
        e = [_s(v) for v in law.strain(*x)]
        e_in = [e[0], e[1], e[3]] if kind == "plane_stress" else e
        s = [_s(v) for v in law.stress(*e_in)]
        s_back = s if kind == "plane_stress" else [s[0], s[1], s[3]]
        ctx.claim(ctx.close(s_back, x), kind + ".roundtrip", ("stress(strain)", s_back))
        s2 = [_s(v) for v in law.stress(*x)]
        s2_in = s2 if kind == "plane_stress" else [s2[0], s2[1], s2[3]]
        e2 = [_s(v) for v in law.strain(*s2_in)]
        e2_back = [e2[0], e2[1], e2[3]] if kind == "plane_stress" else e2
        ctx.claim(ctx.close(e2_back, x), kind + ".roundtrip", ("strain(stress)", e2_back))
        return {"s": s_back, "e": e2_back}
    if kind == "hooke3d":
        E, nu = _params(ctx)
        law = HL.HookesLaw3d(E, nu)
        x = [ctx.real("x%d" % i) for i in range(6)]
        s = [_s(v) for v in law.stress(*[_s(v) for v in law.strain(*x)])]
        ctx.claim(ctx.close(s, x), "hooke3d.roundtrip", ("stress(strain)", s))
        e = [_s(v) for v in law.strain(*[_s(v) for v in law.stress(*x)])]
        ctx.claim(ctx.close(e, x), "hooke3d.roundtrip", ("strain(stress)", e))
        return {"s": s, "e": e}
    if kind == "plane_strain_vs_3d":
        E, nu = _params(ctx)
        e11, e22, g12 = ctx.real("e11"), ctx.real("e22"), ctx.real("g12")
        p = [_s(v) for v in HL.HookesLaw2dPlaneStrain(E, nu).stress(e11, e22, g12)]          # s11 s22 s33 s12
        t = [_s(v) for v in HL.HookesLaw3d(E, nu).stress(e11, e22, 0.0 * e11, g12, 0.0 * e11, 0.0 * e11)]
        ctx.claim(ctx.close(p, [t[0], t[1], t[2], t[3]]), "plane_strain==3d", (p, t))
        ctx.claim(ctx.close([t[4], t[5]], [0.0, 0.0]), "plane_strain==3d")
        return {"p": p}
    if kind == "plane_stress_vs_3d":
        E, nu = _params(ctx)
        s11, s22, s12 = ctx.real("s11"), ctx.real("s22"), ctx.real("s12")
        p = [_s(v) for v in HL.HookesLaw2dPlaneStress(E, nu).strain(s11, s22, s12)]          # e11 e22 e33 g12
        t = [_s(v) for v in HL.HookesLaw3d(E, nu).strain(s11, s22, 0.0 * s11, s12, 0.0 * s11, 0.0 * s11)]
        ctx.claim(ctx.close(p, [t[0], t[1], t[2], t[3]]), "plane_stress==3d", (p, t))
        return {"p": p}
    if kind == "moduli":
        E, nu = _params(ctx)
        out = []
        for cls in (HL.HookesLaw2dPlaneStress, HL.HookesLaw2dPlaneStrain, HL.HookesLaw3d):
            law = cls(E, nu)
            ctx.claim(ctx.close([law.G, law.K], [E / (2 * (1 + nu)), E / (3 * (1 - 2 * nu))]), "moduli", (law.G, law.K))
            ctx.claim(ctx.eq([law.E, law.nu], [E, nu]), "moduli")
            out.append([law.G, law.K])
        return {"GK": out}
    if kind == "nu_range":
        E, nu = ctx.real("E"), ctx.real("nu")
        ctx.assume(E > 0)
        raised = []
        for cls in (HL.HookesLaw2dPlaneStress, HL.HookesLaw2dPlaneStrain, HL.HookesLaw3d):
            try:
                cls(E, nu)
                raised.append(False)
            except ValueError:
                raised.append(True)
        outside = bool(sym_or(nu < -1, nu > 0.5))
        ctx.claim(raised == [outside] * 3, "nu_range_error", (raised, outside))
        return {"raised": raised}
    if kind == "ro_odd":
        ro = _ro(ctx)
        x = ctx.real("x")
        a, b = _s(ro.strain(x)), _s(ro.strain(-x))
        ctx.claim(ctx.close(b, -a), "ro.odd", (a, b))
        return {"a": a, "b": b} if not ctx.sym else None
    if kind == "ro_masing":
        ro = _ro(ctx)
        x = ctx.real("x")
        a, b = _s(ro.delta_strain(x)), 2 * _s(ro.strain(x / 2))
        ctx.claim(ctx.close(a, b), "ro.masing_doubled", (a, b))
        return None
    if kind == "ro_hysteresis":
        ro = _ro(ctx)
        smax, s = ctx.real("smax"), ctx.real("s")
        try:
            r = _s(ro.lower_hysteresis(s, smax))
            raised = False
        except ValueError:
            raised = True
        ctx.claim(raised == bool(s > smax), "ro.lower_hysteresis_error", (raised,))
        if not raised and bool(s == smax):
            ctx.claim(ctx.close(r, _s(ro.strain(smax))), "ro.lower_hysteresis_meets_curve", (r,))
        return None
    if kind == "ro_modulus":
        ro = _ro(ctx)
        x = ctx.real("x")
        c, mo = _s(ro.tangential_compliance(x)), _s(ro.tangential_modulus(x))
        ctx.assume(c != 0)
        ctx.claim(ctx.close(mo * c, 1.0), "ro.modulus_reciprocal", (c, mo))
        return None
    raise RuntimeError("unknown kind")
