"""C07  Binned notch law is the wrapped law sampled at the upper class edge."""
import numpy as np
import pandas as pd

import pylife.materiallaws.notch_approximation_law as NAL
from pylife.materiallaws.notch_approximation_law import Binned

from ..sym import sym_and, sym_or, sym_not, s_eq, SymReal
from ..util import eq_struct, mutated
from .. import npfacade

PROPERTY = "C07"
ENCODED = ["pylife.materiallaws.notch_approximation_law:Binned.__init__",
           "pylife.materiallaws.notch_approximation_law:Binned._create_bins",
           "pylife.materiallaws.notch_approximation_law:Binned._create_bins_single_assessment_point",
           "pylife.materiallaws.notch_approximation_law:Binned._create_bins_multiple_assessment_points",
           "pylife.materiallaws.notch_approximation_law:Binned.stress",
           "pylife.materiallaws.notch_approximation_law:Binned.strain",
           "pylife.materiallaws.notch_approximation_law:Binned.stress_secondary_branch",
           "pylife.materiallaws.notch_approximation_law:Binned.strain_secondary_branch"]
STUBS = ["wrapped notch approximation law = uninterpreted functions stress(L), strain(S, L), dstress(dL), "
         "dstrain(dS, dL) applied element-wise (contract stub: the law itself is C06's subject); a second variant "
         "uses the identity law so that the selected class edge itself is observable"]
ASSUMPTIONS = ["floats are modelled as reals; float constants such as k/n stand for the simplest rational that rounds to "
               "them, so class edges are (k/n) * L_max (the table holds fl(k/n) * L_max, which differs by <= 1 ulp)",
               "L_max > 0", "multi-point: per-point maxima and loads are proportional with a factor from {1/2, 2, 3, -2} (node ids also non-ascending) "
               "(the documented use: one class look-up for the first node serves all nodes)"]
OUTSIDE = "bin counts other than the enumerated ones; float rounding; non-proportional multi-point loads"
RULE = ("one evaluation = one explored path (position of the load relative to all class edges incl. exactly on an "
        "edge, sign, in/out of range); distinct = distinct (api, container, bins, selected class / error); "
        "non-trivial = every path (each selects a class or raises)")
LABELS = ["upper_edge", "range_error", "never_underestimates", "less_than_one_class", "series_equals_scalar",
          "multipoint_equals_single", "monotone"]
RTOL = 1e-12      # witness comparison: fl(k/n)*L_max (floats) vs (k/n)*L_max (reals model)
APIS = ("stress", "strain", "stress_secondary_branch", "strain_secondary_branch")


def bounds(tier):
    return {"bins": BINS[tier], "apis": list(APIS), "containers": ["scalar", "series(2 loads)", "multi-point(2 nodes)"]}


BINS = {"quick": [1, 2, 3, 4], "thorough": [1, 2, 3, 4, 5, 6, 7, 8, 16, 100]}


def cases(tier):
    out = []
    for n in BINS[tier]:
        for api in APIS:
            w = n * (2 if "secondary" in api else 1)
            out.append({"kind": "scalar", "api": api, "bins": n, "law": "uf", "_weight": w})
            out.append({"kind": "scalar", "api": api, "bins": n, "law": "identity", "_weight": w})
            if n <= 8:
                for kind, law in (("series", "uf"), ("monotone", "identity")):
                    c = {"kind": kind, "api": api, "bins": n, "law": law, "_weight": w * w}
                    if w >= 4:
                        c["_split"] = 4
                    out.append(c)
            if n <= 4:
                for c in (0.5, 2.0, 3.0):
                    out.append({"kind": "multi", "api": api, "bins": n, "law": "uf", "c": c, "_weight": w * 3})
                # node ids in non-ascending order; a point that sees the negative multiple of the load
                out.append({"kind": "multi", "api": api, "bins": n, "law": "uf", "c": 2.0, "nodes": [30, 10], "_weight": w * 3})
                out.append({"kind": "multi", "api": api, "bins": n, "law": "uf", "c": -2.0, "_weight": w * 3})
    return out


class StubLaw:
    ramberg_osgood_relation = None

    def __init__(self, ctx, kind):
        self.sym = ctx.sym
        if kind == "uf":
            self.f_stress = ctx.uf("law_stress", 1)
            self.f_strain = ctx.uf("law_strain", 2)
            self.f_dstress = ctx.uf("law_dstress", 1)
            self.f_dstrain = ctx.uf("law_dstrain", 2)
        else:
            self.f_stress = lambda L: L
            self.f_strain = lambda S, L: L
            self.f_dstress = lambda L: L
            self.f_dstrain = lambda S, L: L

    def _map(self, fn, *args):
        first = args[0]
        if isinstance(first, pd.Series):
            vals = [fn(*vs) for vs in zip(*[list(a) for a in args])]
            return pd.Series(np.array(vals, dtype=object if self.sym else np.float64), index=first.index)
        if isinstance(first, np.ndarray):
            vals = [fn(*vs) for vs in zip(*[list(a) for a in args])]
            return np.array(vals, dtype=object if self.sym else np.float64)
        return fn(*args)

    def stress(self, load, **kw):
        return self._map(self.f_stress, load)

    def strain(self, stress, load):
        return self._map(self.f_strain, stress, load)

    def stress_secondary_branch(self, delta_load, **kw):
        return self._map(self.f_dstress, delta_load)

    def strain_secondary_branch(self, delta_stress, delta_load):
        return self._map(self.f_dstrain, delta_stress, delta_load)


def _apply_canary(ctx):
    cn = ctx.canary
    if cn == "next_higher_class_dropped":
        ctx.patch(Binned, "stress", mutated(Binned.stress, "return sign * self._lut_primary_branch.iloc[index+1].stress",
                                            "return sign * self._lut_primary_branch.iloc[max(index, 0)].stress"))
    elif cn == "range_guard_off_by_one":
        ctx.patch(Binned, "strain_secondary_branch",
                  mutated(Binned.strain_secondary_branch, "if np.any(index+1 >= len(self._lut_secondary_branch)):",
                          "if np.any(index >= len(self._lut_secondary_branch)):", count=2))
    elif cn == "secondary_table_not_doubled":
        ctx.patch(Binned, "_create_bins_single_assessment_point",
                  mutated(Binned._create_bins_single_assessment_point,
                          "index=pd.Index(np.arange(1, 2*self._number_of_bins+1), name=\"class_index\")",
                          "index=pd.Index(np.arange(1, 2*self._number_of_bins), name=\"class_index\")"))
    elif cn == "searchsorted_side":
        ctx.patch(Binned, "stress", mutated(Binned.stress, "index = self._lut_primary_branch.load.searchsorted(np.abs(load))-1",
                                            "index = self._lut_primary_branch.load.searchsorted(np.abs(load), side='right')-1"))
    elif cn is not None:
        raise RuntimeError("unknown canary " + cn)


CANARIES = [
    {"name": "next_higher_class_dropped", "cases": [{"kind": "scalar", "api": "stress", "bins": 3, "law": "uf"}]},
    {"name": "searchsorted_side", "cases": [{"kind": "scalar", "api": "stress", "bins": 3, "law": "uf"}]},
    {"name": "range_guard_off_by_one", "cases": [{"kind": "scalar", "api": "strain_secondary_branch", "bins": 2, "law": "uf"}]},
    {"name": "secondary_table_not_doubled", "cases": [{"kind": "scalar", "api": "stress_secondary_branch", "bins": 2, "law": "uf"}]},
]
QUICK_CANARIES = 4


def _call(b, law, api, load):
    """call one look-up function of the binned law.  The strain look-ups ignore their stress argument
    (the table is addressed by the load); they are called directly so that the stress look-up's own
    range guard cannot mask a defect of the strain look-up."""
    if api == "stress":
        return b.stress(load)
    if api == "strain":
        return b.strain(load * 0, load)
    if api == "stress_secondary_branch":
        return b.stress_secondary_branch(load)
    return b.strain_secondary_branch(load * 0, load)


def _oracle(law, api, n, lmax, load):
    """upper-class-edge rule by linear scan; returns (class k, edge, value) or None when out of range"""
    secondary = "secondary" in api
    nclasses = 2 * n if secondary else n
    a = abs(load)
    for k in range(1, nclasses + 1):
        edge = (k / n) * lmax
        if edge >= a:
            if api == "stress":
                v = law.f_stress(edge)
            elif api == "strain":
                v = law.f_strain(law.f_stress(edge), edge)
            elif api == "stress_secondary_branch":
                v = law.f_dstress(edge)
            else:
                v = law.f_dstrain(law.f_dstress(edge), edge)
            if load > 0:
                return k, edge, v
            if load < 0:
                return k, edge, -v
            return k, edge, v * 0
    return None


def _scalarize(r):
    if isinstance(r, (pd.Series, np.ndarray, list)):
        vals = list(np.asarray(r, dtype=object).reshape(-1))
        return vals
    return [r]


def run(ctx, case):
    _apply_canary(ctx)
    if ctx.sym:
        ctx.patch(NAL, "np", npfacade.FACADE)      # numpy functions without object loop (self-tested facade)
    api, n, kind = case["api"], case["bins"], case["kind"]
    law = StubLaw(ctx, case["law"])
    lmax = ctx.real("Lmax")
    ctx.assume(lmax > 0)
    # witnesses: a power of two keeps fl(k/n) * L_max exact in float64 (the reals model and the floats then agree)
    ctx.hint(sym_or(lmax == 1, lmax == 2, lmax == 4, lmax == 0.5))
    secondary = "secondary" in api
    width_bound = lmax / n

    def single(load_value, lm=lmax):
        b = Binned(law, lm, n)
        try:
            r = _call(b, law, api, load_value)
        except ValueError:
            return "ValueError"
        return r

    if kind in ("scalar",):
        L = ctx.real("L")
        r = single(L)
        exp = _oracle(law, api, n, lmax, L)
        ctx.signature((kind, api, n, case["law"], None if exp is None else exp[0], r == "ValueError" if isinstance(r, str) else False))
        if exp is None:
            ctx.claim(isinstance(r, str), "range_error", "load above the initialised range returned a value")
            return {"result": "ValueError"}
        ctx.claim(not isinstance(r, str), "range_error", "load inside the initialised range raised")
        if isinstance(r, str):
            return {"result": r}
        vals = _scalarize(r)
        ctx.claim(len(vals) == 1, "upper_edge")
        ctx.claim(s_eq(vals[0], exp[2]), "upper_edge", (vals, exp))
        if case["law"] == "identity":
            ctx.claim(abs(vals[0]) >= abs(L), "never_underestimates")
            ctx.claim(abs(vals[0]) - abs(L) < width_bound * (1 + 1e-12), "less_than_one_class")
        return {"result": vals[0]}

    if kind == "monotone":
        L1, L2 = ctx.real("L1"), ctx.real("L2")
        ctx.assume(abs(L1) <= abs(L2))
        r1, r2 = single(L1), single(L2)
        ctx.signature((kind, api, n, isinstance(r1, str), isinstance(r2, str)))
        if isinstance(r2, str) or isinstance(r1, str):
            ctx.claim(not (isinstance(r1, str) and not isinstance(r2, str)), "monotone", "smaller load raised, larger did not")
            return {"r1": r1 if isinstance(r1, str) else _scalarize(r1)[0], "r2": r2 if isinstance(r2, str) else _scalarize(r2)[0]}
        v1, v2 = _scalarize(r1)[0], _scalarize(r2)[0]
        ctx.claim(abs(v1) <= abs(v2), "monotone", (v1, v2))
        return {"r1": v1, "r2": v2}

    if kind == "series":
        La, Lb = ctx.real("La"), ctx.real("Lb")
        ser = pd.Series(np.array([La, Lb], dtype=object if ctx.sym else np.float64))
        r = single(ser)
        ra, rb = single(La), single(Lb)
        ctx.signature((kind, api, n, isinstance(r, str), isinstance(ra, str), isinstance(rb, str)))
        if isinstance(ra, str) or isinstance(rb, str):
            ctx.claim(isinstance(r, str), "series_equals_scalar", "an out-of-range element did not raise in the Series call")
            return {"result": "ValueError"}
        ctx.claim(not isinstance(r, str), "series_equals_scalar", "Series call raised although both elements are in range")
        if isinstance(r, str):
            return {"result": r}
        vals = _scalarize(r)
        ctx.claim(eq_struct(vals, [_scalarize(ra)[0], _scalarize(rb)[0]]), "series_equals_scalar", (vals, ra, rb))
        # a look-up does not depend on earlier look-ups of the same object: same length, same first point, other second point
        b = Binned(law, lmax, n)
        _call(b, law, api, ser)
        ser2 = pd.Series(np.array([La, Lb / 2], dtype=object if ctx.sym else np.float64))
        r2 = _scalarize(_call(b, law, api, ser2))
        rc = single(Lb / 2)
        ctx.claim(eq_struct(r2, [_scalarize(ra)[0], _scalarize(rc)[0]]), "series_equals_scalar", ("second look-up of the same object", r2, ra, rc))
        return {"result": vals}

    if kind == "multi":
        c = case["c"]
        L = ctx.real("L")
        nodes = case.get("nodes", [7, 9])
        maxima = pd.Series(np.array([lmax, abs(c) * lmax], dtype=object if ctx.sym else np.float64),
                           index=pd.Index(nodes, name="node_id"))
        b = Binned(law, maxima, n)
        load = pd.Series(np.array([L, c * L], dtype=object if ctx.sym else np.float64),
                         index=pd.MultiIndex.from_product([[0], nodes], names=["load_step", "node_id"]))
        try:
            r = _call(b, law, api, load)
        except ValueError:
            r = "ValueError"
        r1, r2 = single(L, lmax), single(c * L, abs(c) * lmax)
        ctx.signature((kind, api, n, c, isinstance(r, str), isinstance(r1, str)))
        if isinstance(r1, str) or isinstance(r2, str):
            ctx.claim(isinstance(r, str), "multipoint_equals_single", "out of range load did not raise in the multi-point call")
            return {"result": "ValueError"}
        ctx.claim(not isinstance(r, str), "multipoint_equals_single", "multi-point call raised although in range")
        if isinstance(r, str):
            return {"result": r}
        vals = _scalarize(r)
        ctx.claim(eq_struct(vals, [_scalarize(r1)[0], _scalarize(r2)[0]]), "multipoint_equals_single", (vals, r1, r2))
        return {"result": vals}
    raise RuntimeError("unknown kind")
