"""C03  Rainflow result depends only on the reversal sequence (metamorphic relations between runs)."""
import itertools
import warnings

import numpy as np
import pandas as pd

import pylife.stress.rainflow.general as GEN
import pylife.stress.rainflow.fkm as FKM

from ..sym import sym_and, sym_or, s_eq, s_min, s_max, is_sym
from ..util import eq_struct, mutated
from . import rf_common as C

PROPERTY = "C03"
ENCODED = ["file:src/pylife/stress/rainflow/extension.pyx",
           "pylife.stress.rainflow.general:find_turns",
           "pylife.stress.rainflow.general:AbstractDetector._new_turns",
           "pylife.stress.rainflow.threepoint:ThreePointDetector.process",
           "pylife.stress.rainflow.fourpoint:FourPointDetector.process",
           "pylife.stress.rainflow.fkm:FKMDetector.process"]
STUBS = ["extension.pyx kernels: mechanical Python translation (symbolic run) / compiled from the same text (replays)"]
ASSUMPTIONS = ["floats are modelled as reals",
               "inserted non-reversal samples are interior (the first and last sample of a signal are turning points "
               "of the sequence by definition) and lie between their neighbours (inclusive: repeated values)",
               "scale factors of the affine relation are taken from a finite set (terms stay linear); the offset is symbolic",
               "NaN positions are concrete (all subsets of interior positions up to the bound), the other samples symbolic"]
OUTSIDE = "longer signals / more inserted samples than the bound; symbolic scale factor; float rounding"
RULE = ("one evaluation = one explored path (joint order type of base signal and inserted/transformed samples); "
        "distinct = distinct (relation, detector, sizes, positions, reported index pattern); non-trivial = at least "
        "one closed cycle in the base run")
LABELS = ["refine.values", "refine.index", "negate.values", "negate.index", "affine.values", "affine.index",
          "nan.warning", "nan.values", "nan.index", "series.equal"]
SCALES = [0.5, 2.0, 3.0, 1000.0]


def bounds(tier):
    if tier == "quick":
        return {"base_length": "3..5 (refinement: 1 inserted sample; 3..4 with the refined signal fed in two pieces at every border), 2..5 (negation, affine), 4..5 with <= 2 NaN, series 4"}
    return {"base_length": "3..6 (refinement: 1 inserted sample; 3..5 with the refined signal fed in two pieces), 3..4 (2 inserted samples), 2..7 (negation, affine), "
                           "4..6 with <= 2 NaN and 7..8 with 3-4 NaN, series 5"}


prepare = C.prepare


def cases(tier):
    q = tier == "quick"
    out = []
    for det in C.DETECTORS:
        for n in range(3, (5 if q else 6) + 1):
            for p in range(1, n):
                out.append({"rel": "refine", "det": det, "n": n, "pos": [p], "_weight": 5 ** (n + 1)})
        for n in range(3, (4 if q else 5) + 1):
            for p in range(1, n):
                for cut in range(1, n + 1):
                    out.append({"rel": "refine", "det": det, "n": n, "pos": [p], "cut": cut, "_weight": 5 ** (n + 1)})
        if not q:
            for n in (3, 4):
                for p, p2 in itertools.combinations_with_replacement(range(1, n), 2):
                    out.append({"rel": "refine", "det": det, "n": n, "pos": [p, p2], "_weight": 5 ** (n + 2)})
        for n in range(2, (4 if q else 6) + 1):
            # repeated first / last sample (a non-reversal sample at the ends)
            out.append({"rel": "repeat_end", "det": det, "n": n, "where": "first", "_weight": 5 ** n})
            out.append({"rel": "repeat_end", "det": det, "n": n, "where": "last", "_weight": 5 ** n})
        for n in range(2, (5 if q else 7) + 1):
            out.append({"rel": "negate", "det": det, "n": n, "_weight": 5 ** n})
            if det != "fkm":
                for a in SCALES:
                    out.append({"rel": "affine", "det": det, "n": n, "a": a, "_weight": 5 ** n})
        for n in range(4, (5 if q else 6) + 1):
            for k in (1, 2):
                for nanpos in itertools.combinations(range(1, n - 1), k):
                    out.append({"rel": "nan", "det": det, "n": n, "nan": list(nanpos), "_weight": 5 ** (n - k)})
        # longer dropouts: runs and scattered groups of 3 and 4 NaNs
        for n in ((7,) if q else (7, 8)):
            for k in (3, 4):
                combos = list(itertools.combinations(range(1, n - 1), k))
                for nanpos in (combos[::3] if q else combos):
                    out.append({"rel": "nan", "det": det, "n": n, "nan": list(nanpos), "_weight": 5 ** (n - k)})
        for kind in ("range", "shuffled_int", "float", "datetime", "string"):
            out.append({"rel": "series", "det": det, "n": 4 if q else 5, "index": kind, "_weight": 5 ** 4})
    return out


def _apply_canary(ctx):
    cn = ctx.canary
    if cn == "nan_index_off":
        ctx.patch(GEN, "find_turns", mutated(GEN.find_turns, "index[index >= nan_pos] += 1", "index[index > nan_pos] += 1"))
    elif cn == "plateau_indexed_at_end":
        ctx.patch(GEN, "find_turns", mutated(GEN.find_turns, "plateau_turns[dups_starts[np.where", "plateau_turns[dups_ends[np.where"))
    elif cn == "fkm_signed_compare":
        ctx.patch(FKM.FKMDetector, "process", mutated(FKM.FKMDetector.process, "if np.abs(current) > max_turn:", "if current > max_turn:"))
    elif cn == "fourpoint_offset_dependent":
        return ("ab = fabs(a - b)", "ab = fabs(a) - fabs(b) if a > 0 and b > 0 else fabs(a - b)")
    elif cn is not None:
        raise RuntimeError("unknown canary " + cn)
    return None


CANARIES = [
    {"name": "nan_index_off", "cases": [{"rel": "nan", "det": "fourpoint", "n": 5, "nan": [1]}]},
    {"name": "plateau_indexed_at_end", "cases": [{"rel": "refine", "det": "fourpoint", "n": 4, "pos": [2]}]},
    {"name": "fkm_signed_compare", "cases": [{"rel": "negate", "det": "fkm", "n": 5}]},
    {"name": "fourpoint_offset_dependent", "cases": [{"rel": "affine", "det": "fourpoint", "n": 5, "a": 2.0}]},
]
QUICK_CANARIES = 4


def _arr(ctx, vals):
    return np.array(vals, dtype=object if ctx.sym else np.float64)


def _run(det, data, cut=None):
    d = C.make(det)
    if cut:
        d.process(data[:cut])
        d.process(data[cut:])
    else:
        d.process(data)
    return C.observe(d)


def run(ctx, case):
    mut = _apply_canary(ctx)
    C.install_kernels(ctx, mut)
    det, n, rel = case["det"], case["n"], case["rel"]
    has_index = det != "fkm"
    xs = [ctx.real("x%d" % i) for i in range(n)]
    vkeys = ("values_from", "values_to", "residuals")
    ikeys = ("index_from", "index_to", "residual_index")

    if rel == "nan":
        sig = list(xs)
        for p in case["nan"]:
            sig[p] = float("nan")
        clean_pos = [i for i in range(n) if i not in case["nan"]]
        with warnings.catch_warnings(record=True) as w:
            warnings.simplefilter("always")
            o = _run(det, _arr(ctx, sig))
        ctx.claim(any(issubclass(x.category, UserWarning) for x in w), "nan.warning")
        base = _run(det, _arr(ctx, [xs[i] for i in clean_pos]))
        ctx.signature((rel, det, n, case["nan"], base["index_from"], base["index_to"]), trivial=not base["values_from"])
        ctx.claim(eq_struct({k: o[k] for k in vkeys}, {k: base[k] for k in vkeys}), "nan.values", (o, base))
        if has_index:
            exp = {k: [clean_pos[i] for i in base[k]] for k in ikeys}
            # the index of the last residual is the position of the last sample of the original signal
            ctx.claim({k: o[k] for k in ikeys} == exp, "nan.index", (o, exp))
        else:
            ctx.claim(True, "nan.index")
        return o

    base = _run(det, _arr(ctx, xs))
    ncyc = len(base["values_from"])

    if rel == "refine":
        sig = list(xs)
        image = list(range(n))
        ins_at = []
        for k, p in enumerate(sorted(case["pos"], reverse=True)):
            y = ctx.real("y%d" % k)
            lo, hi = s_min(sig[p - 1], sig[p]), s_max(sig[p - 1], sig[p])
            ctx.assume(sym_and(lo <= y, y <= hi))
            sig.insert(p, y)
            image = [i + 1 if i >= p else i for i in image]
            ins_at = [q + 1 if q >= p else q for q in ins_at] + [p]
        o = _run(det, _arr(ctx, sig), case.get("cut"))       # (optionally the refined signal arrives in two pieces)
        ctx.signature((rel, det, n, case["pos"], case.get("cut"), base["index_from"], base["index_to"], base["residual_index"]),
                      trivial=(ncyc == 0))
        ctx.claim(eq_struct({k: o[k] for k in vkeys}, {k: base[k] for k in vkeys}), "refine.values", (o, base))
        if has_index:
            conj = []
            ok = all(len(o[k]) == len(base[k]) for k in ikeys)
            if ok:
                for k in ikeys:
                    for j, i0 in zip(o[k], base[k]):
                        im = image[i0]
                        if j == im:
                            continue
                        # allowed only as the first sample of the plateau that contains the image
                        if j < im and all(q in ins_at for q in range(j, im)):
                            conj.append(sym_and(*[sig[q] == sig[im] for q in range(j, im)]))
                        else:
                            ok = False
            ctx.claim(ok, "refine.index", (o, base, image))
            if ok:
                ctx.claim(sym_and(*conj), "refine.index", (o, base, image))
        else:
            ctx.claim(True, "refine.index")
        return o

    if rel == "repeat_end":
        first = case["where"] == "first"
        sig = ([xs[0]] + list(xs)) if first else (list(xs) + [xs[-1]])
        o = _run(det, _arr(ctx, sig))
        ctx.signature((rel, det, n, case["where"], base["index_from"], base["index_to"], base["residual_index"]), trivial=(ncyc == 0))
        ctx.claim(eq_struct({k: o[k] for k in vkeys}, {k: base[k] for k in vkeys}), "refine.values", (o, base))
        if has_index:
            exp = {}
            for k in ikeys:
                if first:
                    exp[k] = [(i + 1 if i > 0 else 0) for i in base[k]]        # the plateau at the start is indexed at its first sample
                else:
                    exp[k] = list(base[k])
            if not first:
                exp["residual_index"] = exp["residual_index"][:-1] + [n]          # the last sample of the signal
            ctx.claim({k: o[k] for k in ikeys} == exp, "refine.index", (o, exp))
        return o

    if rel == "negate":
        o = _run(det, _arr(ctx, [-x for x in xs]))
        ctx.signature((rel, det, n, base["index_from"], base["index_to"], base["residual_index"]), trivial=(ncyc == 0))
        ctx.claim(eq_struct({k: o[k] for k in vkeys}, {k: [-v for v in base[k]] for k in vkeys}), "negate.values", (o, base))
        ctx.claim({k: o[k] for k in ikeys} == {k: base[k] for k in ikeys}, "negate.index")
        return o

    if rel == "affine":
        a = case["a"]
        b = ctx.real("b")
        o = _run(det, _arr(ctx, [a * x + b for x in xs]))
        ctx.signature((rel, det, n, a, base["index_from"], base["index_to"], base["residual_index"]), trivial=(ncyc == 0))
        ctx.claim(eq_struct({k: o[k] for k in vkeys}, {k: [a * v + b for v in base[k]] for k in vkeys}), "affine.values", (o, base))
        ctx.claim({k: o[k] for k in ikeys} == {k: base[k] for k in ikeys}, "affine.index")
        return o

    if rel == "series":
        kind = case["index"]
        if kind == "range":
            idx = pd.RangeIndex(n)
        elif kind == "shuffled_int":
            idx = pd.Index([(7 * i + 3) % 11 for i in range(n)], dtype="int64")
        elif kind == "float":
            idx = pd.Index([0.5 * i - 1.0 for i in range(n)], dtype="float64")
        elif kind == "datetime":
            idx = pd.date_range("2020-01-01", periods=n, freq="s")
        else:
            idx = pd.Index(["s%d" % ((5 * i) % 7) for i in range(n)])
        ser = pd.Series(_arr(ctx, xs), index=idx)
        o = _run(det, ser)
        ctx.signature((rel, det, n, kind, base["index_from"], base["index_to"], base["residual_index"]), trivial=(ncyc == 0))
        ctx.claim(eq_struct(o, base), "series.equal", (o, base))
        return o
    raise RuntimeError("unknown relation")
