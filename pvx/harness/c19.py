"""C19  Mesh operators: the hot-spot clause (connected components of the entries above the threshold)."""
import itertools

import numpy as np
import pandas as pd

import pylife.mesh.hotspot as HS

from ..sym import sym_and, sym_or, sym_not, SymReal
from ..util import eq_struct, mutated

PROPERTY = "C19"
ENCODED = ["pylife.mesh.hotspot:HotSpot.calc", "pylife.mesh.hotspot:HotSpot._HotSpot__hs_sel"]
STUBS = []
ASSUMPTIONS = ["field values are symbolic (any sign) and pairwise distinct (distinct peaks; ties in the numbering are not specified)",
               "meshes are concrete and enumerated (2-3 elements, shared nodes / disconnected / chains, id gaps, shuffled rows)",
               "oracle: union-find components of the entries >= fraction * maximum under shared-node / shared-element "
               "adjacency, numbered by descending peak"]
OUTSIDE = ("gradients (lstsq, Jacobian inverses), mesh mapping (scipy griddata / Qhull), surface detection (arccos, arcsin): "
           "no encoding; meshes larger than the enumerated ones")
RULE = ("one evaluation = one explored path (order type of the field values relative to each other and to the threshold); "
        "distinct = distinct (mesh, fraction, label vector); non-trivial = at least two entries above the threshold")
LABELS = ["hotspot.threshold", "hotspot.components", "hotspot.numbering"]

MESHES = {
    "shared_node": [(1, 1), (1, 2), (2, 2), (2, 3)],
    "disconnected": [(10, 5), (10, 7), (20, 9), (20, 11)],
    "chain": [(1, 1), (1, 2), (2, 2), (2, 3), (3, 3), (3, 4)],
    "chain_gaps_shuffled": [(12, 30), (7, 40), (3, 20), (7, 10), (12, 20), (3, 30)],
    "two_plus_one": [(5, 1), (5, 2), (6, 2), (6, 3), (9, 8), (9, 9)],
}


def bounds(tier):
    return {"meshes": list(MESHES) if tier != "quick" else ["shared_node", "disconnected", "chain_gaps_shuffled"],
            "fractions": [0.5, 0.9], "entries": "4..6"}


def cases(tier):
    q = tier == "quick"
    names = ["shared_node", "disconnected", "chain_gaps_shuffled"] if q else list(MESHES)
    out = []
    for name in names:
        for frac in (0.5, 0.9):
            c = {"mesh": name, "frac": frac, "_weight": 4 ** len(MESHES[name])}
            if len(MESHES[name]) >= 6:
                c["_split"] = 7
            out.append(c)
    return out


def _apply_canary(ctx):
    cn = ctx.canary
    H = HS.HotSpot
    if cn == "threshold_strict":
        ctx.patch(H, "calc", mutated(H.calc, "above_limit = self._obj[value_key] >= limit_frac*max_value", "above_limit = self._obj[value_key] > limit_frac*max_value"))
    elif cn == "elements_not_followed":
        ctx.patch(H, "_HotSpot__hs_sel", mutated(H._HotSpot__hs_sel, "            if new_elems.any():\n                new_entries = True\n                new_hotspot[new_elems] = True\n", "            pass\n"))
    elif cn == "numbering_from_zero":
        ctx.patch(H, "calc", mutated(H.calc, "hs_index = 1", "hs_index = 0"))
    elif cn is not None:
        raise RuntimeError("unknown canary " + cn)


CANARIES = [
    {"name": "elements_not_followed", "cases": [{"mesh": "shared_node", "frac": 0.5}]},
    {"name": "threshold_strict", "cases": [{"mesh": "shared_node", "frac": 0.5}]},
    {"name": "numbering_from_zero", "cases": [{"mesh": "disconnected", "frac": 0.5}]},
]
QUICK_CANARIES = 3


def _oracle(entries, vals, above):
    n = len(entries)
    parent = list(range(n))

    def find(i):
        while parent[i] != i:
            i = parent[i]
        return i
    for i, j in itertools.combinations(range(n), 2):
        if above[i] and above[j] and (entries[i][0] == entries[j][0] or entries[i][1] == entries[j][1]):
            parent[find(i)] = find(j)
    comps = {}
    for i in range(n):
        if above[i]:
            comps.setdefault(find(i), []).append(i)
    # peak of each component
    peaks = []
    for members in comps.values():
        p = members[0]
        for k in members[1:]:
            if bool(vals[k] > vals[p]):
                p = k
        peaks.append((p, members))
    # order by descending peak value
    order = []
    rest = list(peaks)
    while rest:
        b = 0
        for k in range(1, len(rest)):
            if bool(vals[rest[k][0]] > vals[rest[b][0]]):
                b = k
        order.append(rest.pop(b))
    labels = [0] * n
    for num, (_p, members) in enumerate(order, start=1):
        for k in members:
            labels[k] = num
    return labels


def run(ctx, case):
    _apply_canary(ctx)
    entries = MESHES[case["mesh"]]
    frac = case["frac"]
    n = len(entries)
    vals = [ctx.real("v%d" % i) for i in range(n)]
    # any sign: for a purely compressive (all-negative) field fraction * maximum lies above the maximum
    ctx.assume(sym_and(*[a != b for a, b in itertools.combinations(vals, 2)]))
    ctx.hint(sym_and(*[sym_and(v <= 32, v >= -32) for v in vals]))
    idx = pd.MultiIndex.from_tuples(entries, names=["element_id", "node_id"])
    dt = object if ctx.sym else np.float64
    df = pd.DataFrame({"x": np.zeros(n), "y": np.zeros(n), "z": np.zeros(n), "val": np.array(vals, dtype=dt)}, index=idx)
    got = [int(v) for v in df.hotspot.calc("val", frac)]
    vmax = vals[0]
    for v in vals[1:]:
        if bool(v > vmax):
            vmax = v
    above = [bool(v >= frac * vmax) for v in vals]
    exp = _oracle(entries, vals, above)
    ctx.signature((case["mesh"], frac, tuple(exp)), trivial=sum(above) < 2)
    ctx.claim([g > 0 for g in got] == above, "hotspot.threshold", (got, above))
    # same partition into components
    same = all((got[i] == got[j]) == (exp[i] == exp[j]) for i in range(n) for j in range(n) if above[i] and above[j])
    ctx.claim(same, "hotspot.components", (got, exp))
    ctx.claim(got == exp, "hotspot.numbering", (got, exp))
    return {"labels": got}
