"""C19  Mesh operators: the hot-spot clause (connected components of the entries above the threshold) and the
shape-function gradient of a linear field (Gradient3D, tetrahedra and hexahedra)."""
import itertools

import numpy as np
import pandas as pd

import pylife.mesh.hotspot as HS

from ..sym import sym_and, sym_or, sym_not, SymReal, Unsupported
from ..util import eq_struct, mutated
from .. import npfacade
import warnings
from fractions import Fraction
import z3

PROPERTY = "C19"
ENCODED = ["pylife.mesh.hotspot:HotSpot.calc", "pylife.mesh.hotspot:HotSpot._HotSpot__hs_sel",
           "pylife.mesh.gradient:Gradient.gradient_of", "pylife.mesh.gradient:Gradient._find_neighbor", "pylife.mesh.gradient:Gradient._calc_lst_sqr",
           "pylife.mesh.gradient:Gradient3D.gradient_of", "pylife.mesh.gradient:Gradient3D._compute_gradient",
           "pylife.mesh.gradient:Gradient3D._compute_gradient_simplex", "pylife.mesh.gradient:Gradient3D._compute_gradient_simplex_single_node",
           "pylife.mesh.gradient:Gradient3D._compute_gradient_hexahedral", "pylife.mesh.gradient:Gradient3D._compute_gradient_hexahedral_single_node",
           "pylife.mesh.gradient:Gradient3D._initialize_ansatz_function_derivative_hexahedral",
           "pylife.mesh.gradient:Gradient3D._initialize_ansatz_function_derivative_simplex"]
STUBS = ["numpy.linalg.lstsq(A, b) for a concrete matrix A and a symbolic right-hand side by its contract x = (A^T A)^-1 A^T b in exact "
         "rational arithmetic (full column rank; zero columns get 0); np.zeros without dtype -> object array, np.nditer(external_loop, "
         "order='F') over an object array -> its columns; SeriesGroupBy.mean object fall-back (symbolic run only)",
         "numpy.linalg.inv of a 3x3 matrix by its contract adj(J)/det(J) (det(J) != 0 assumed: non-degenerate elements) in the symbolic run",
         "DataFrame.__setitem__(name, float) on a frame with symbolic columns creates an object column (so that it can take symbolic results)"]
ASSUMPTIONS = ["field values are symbolic (any sign) and pairwise distinct (distinct peaks; ties in the numbering are not specified)",
               "meshes are concrete and enumerated (2-3 elements, shared nodes / disconnected / chains, id gaps, shuffled rows)",
               "oracle: union-find components of the entries >= fraction * maximum under shared-node / shared-element "
               "adjacency, numbered by descending peak"]
OUTSIDE = ("symbolic node positions for the least-squares operator and for more than one hexahedron; mesh mapping (scipy griddata / Qhull), surface detection (arccos, arcsin): "
           "no encoding; meshes larger than the enumerated ones")
RULE = ("one evaluation = one explored path (order type of the field values relative to each other and to the threshold); "
        "distinct = distinct (mesh, fraction, label vector); non-trivial = at least two entries above the threshold")
RTOL = 1e-9          # witness comparison of gradients: LAPACK / float arithmetic against the exact value
ATOL = 1e-9
LABELS = ["hotspot.threshold", "hotspot.components", "hotspot.numbering", "gradient.index", "gradient.linear_exact"]

MESHES = {
    "shared_node": [(1, 1), (1, 2), (2, 2), (2, 3)],
    "disconnected": [(10, 5), (10, 7), (20, 9), (20, 11)],
    "chain": [(1, 1), (1, 2), (2, 2), (2, 3), (3, 3), (3, 4)],
    "chain_gaps_shuffled": [(12, 30), (7, 40), (3, 20), (7, 10), (12, 20), (3, 30)],
    "two_plus_one": [(5, 1), (5, 2), (6, 2), (6, 3), (9, 8), (9, 9)],
}


LSQ_MESHES = {
    # two tetrahedra sharing a face; node ids 1..5 in order, 1..5 permuted, with gaps, with gaps and unordered
    "ids_1_to_n": [(1, [1, 2, 3, 4]), (2, [2, 3, 4, 5])],
    "ids_permuted": [(1, [3, 1, 5, 2]), (2, [1, 5, 2, 4])],
    "ids_with_gaps": [(9, [10, 20, 30, 40]), (3, [20, 30, 40, 50])],
    "ids_gaps_unordered": [(9, [40, 7, 12, 3]), (3, [7, 12, 3, 25])],
    # a node whose neighbours all lie in one horizontal plane while the node itself does not (apex over a flat base)
    "apex_over_flat_base": [(4, [11, 5, 8, 2])],
}
LSQ_XYZ = {"apex_over_flat_base": [(0, 0, 0), (1, 0, 0), (0, 1, 0), (0.25, 0.25, 1)]}


TET2_XYZ = [(0, 0, 0), (1, 0, 0.25), (0, 1, 0), (0.25, 0, 1), (1, 1, 1.5)]
HEX_XYZ = [(0, 0, 0), (2, 0, 0.25), (2, 1, 0), (0, 1, 0.5), (0, 0.25, 1), (2, 0, 1), (2.5, 1, 1.5), (0, 1, 1)]


def bounds(tier):
    return {"meshes": list(MESHES) if tier != "quick" else ["shared_node", "disconnected", "chain_gaps_shuffled"],
            "fractions": [0.5, 0.9], "entries": "4..6",
            "gradient": ("linear field with symbolic gradient and offset; one tetrahedron with symbolic node positions (12 symbols); two tetrahedra "
                         "sharing a face and one hexahedron (right- and left-handed node order) with " +
                         ("concrete perturbed positions" if tier == "quick" else "concrete and with fully symbolic positions (15 / 24 symbols)") +
                         "; node and element ids with gaps and in any order, rows of different elements interleaved; least-squares operator: two tetrahedra "
                         "with concrete positions, ids 1..N in order / permuted / with gaps / with gaps and unordered, one tetrahedron whose apex lies over a "
                         "flat base; the same Gradient3D operator object asked again after the mesh was stretched in place")}


def options(tier):
    # feasibility queries about symbolic Jacobian determinants are nonlinear; a short limit keeps them from dominating
    # (an undecided one only means that the assumption is taken as feasible; the claims are decided syntactically)
    return {"timeout_ms": 10000}


def cases(tier):
    q = tier == "quick"
    names = ["shared_node", "disconnected", "chain_gaps_shuffled"] if q else list(MESHES)
    out = []
    # gradient of a linear field (symbolic gradient and offset): symbolic node positions where affordable
    out.append({"kind": "gradient3d", "mesh": "tet_one", "coords": "symbolic", "_weight": 5})
    out.append({"kind": "gradient3d", "mesh": "tet_one", "coords": "symbolic", "again": True, "_weight": 5})
    out.append({"kind": "gradient3d", "mesh": "hex_one", "coords": HEX_XYZ, "again": True, "_weight": 5})
    out.append({"kind": "gradient3d", "mesh": "tet_two_shared_face", "coords": TET2_XYZ, "row_order": "interleaved", "_weight": 5})
    out.append({"kind": "gradient3d", "mesh": "hex_one", "coords": HEX_XYZ, "_weight": 5})
    out.append({"kind": "gradient3d", "mesh": "hex_one", "coords": [(-x, y, z) for x, y, z in HEX_XYZ], "_weight": 5})   # left-handed node order
    for name in LSQ_MESHES:
        out.append({"kind": "gradient_lsq", "mesh": name, "_weight": 3})
    if not q:
        out.append({"kind": "gradient3d", "mesh": "tet_two_shared_face", "coords": "symbolic", "row_order": "interleaved", "_weight": 50})
        out.append({"kind": "gradient3d", "mesh": "hex_one", "coords": "symbolic", "_weight": 200})
    for name in names:
        for frac in (0.5, 0.9):
            c = {"mesh": name, "frac": frac, "_weight": 4 ** len(MESHES[name])}
            if len(MESHES[name]) >= 6:
                c["_split"] = 7
            out.append(c)
    return out


def _apply_canary(ctx):
    cn = ctx.canary
    H = HS.HotSpot
    if cn == "threshold_strict":
        ctx.patch(H, "calc", mutated(H.calc, "above_limit = self._obj[value_key] >= limit_frac*max_value", "above_limit = self._obj[value_key] > limit_frac*max_value"))
    elif cn == "elements_not_followed":
        ctx.patch(H, "_HotSpot__hs_sel", mutated(H._HotSpot__hs_sel, "            if new_elems.any():\n                new_entries = True\n                new_hotspot[new_elems] = True\n", "            pass\n"))
    elif cn == "numbering_from_zero":
        ctx.patch(H, "calc", mutated(H.calc, "hs_index = 1", "hs_index = 0"))
    elif cn == "tet_jacobian_entry":
        import pylife.mesh.gradient as GR
        ctx.patch(GR.Gradient3D, "_compute_gradient_simplex", mutated(GR.Gradient3D._compute_gradient_simplex, "J23 = -x12 + x42", "J23 = -x12 + x32"))
    elif cn == "hex_ansatz_node_set":
        import pylife.mesh.gradient as GR
        ctx.patch(GR.Gradient3D, "_initialize_ansatz_function_derivative_hexahedral",
                  mutated(GR.Gradient3D._initialize_ansatz_function_derivative_hexahedral, "ay = a in [2,3,6,7]", "ay = a in [2,3,5,7]"))
    elif cn == "lsq_wrong_column":
        import pylife.mesh.gradient as GR
        ctx.patch(GR.Gradient, "_calc_lst_sqr", mutated(GR.Gradient._calc_lst_sqr, "np.linalg.lstsq(diff[:, :3], diff[:, 3], rcond=None)", "np.linalg.lstsq(diff[:, :3], diff[:, 2], rcond=None)"))
    elif cn is not None:
        raise RuntimeError("unknown canary " + cn)


CANARIES = [
    {"name": "elements_not_followed", "cases": [{"mesh": "shared_node", "frac": 0.5}]},
    {"name": "threshold_strict", "cases": [{"mesh": "shared_node", "frac": 0.5}]},
    {"name": "numbering_from_zero", "cases": [{"mesh": "disconnected", "frac": 0.5}]},
    {"name": "tet_jacobian_entry", "cases": [{"kind": "gradient3d", "mesh": "tet_one", "coords": "symbolic"}]},
    {"name": "hex_ansatz_node_set", "cases": [{"kind": "gradient3d", "mesh": "hex_one", "coords": HEX_XYZ}]},
    {"name": "lsq_wrong_column", "cases": [{"kind": "gradient_lsq", "mesh": "ids_permuted"}]},
]
QUICK_CANARIES = 6


def _oracle(entries, vals, above):
    n = len(entries)
    parent = list(range(n))

    def find(i):
        while parent[i] != i:
            i = parent[i]
        return i
    for i, j in itertools.combinations(range(n), 2):
        if above[i] and above[j] and (entries[i][0] == entries[j][0] or entries[i][1] == entries[j][1]):
            parent[find(i)] = find(j)
    comps = {}
    for i in range(n):
        if above[i]:
            comps.setdefault(find(i), []).append(i)
    # peak of each component
    peaks = []
    for members in comps.values():
        p = members[0]
        for k in members[1:]:
            if bool(vals[k] > vals[p]):
                p = k
        peaks.append((p, members))
    # order by descending peak value
    order = []
    rest = list(peaks)
    while rest:
        b = 0
        for k in range(1, len(rest)):
            if bool(vals[rest[k][0]] > vals[rest[b][0]]):
                b = k
        order.append(rest.pop(b))
    labels = [0] * n
    for num, (_p, members) in enumerate(order, start=1):
        for k in members:
            labels[k] = num
    return labels


# ---------------------------------------------------------------------------
# gradient clause: shape-function gradient (Gradient3D) of a linear field on tetrahedra / hexahedra

class _Linalg:
    """numpy.linalg for the symbolic run: inv of a 3x3 matrix by its contract inv(J) = adj(J) / det(J); an exactly
    singular matrix raises LinAlgError as numpy does"""
    LinAlgError = np.linalg.LinAlgError

    def __init__(self, ctx):
        self.ctx = ctx

    def __getattr__(self, name):
        return getattr(np.linalg, name)

    def det(self, a):
        a = np.asarray(a, dtype=object)
        if a.shape != (3, 3):
            raise RuntimeError("det stub: 3x3 only")
        return _det3([list(r) for r in a])

    def inv(self, a):
        a = np.asarray(a, dtype=object)
        if a.shape != (3, 3):
            raise RuntimeError("inv stub: 3x3 only")
        (a11, a12, a13), (a21, a22, a23), (a31, a32, a33) = [list(r) for r in a]
        c11, c12, c13 = a22 * a33 - a23 * a32, a23 * a31 - a21 * a33, a21 * a32 - a22 * a31
        det = a11 * c11 + a12 * c12 + a13 * c13
        # non-degenerate elements only (harness assumption): the singular case is excluded instead of forked on - deciding
        # det == 0 for a symbolic Jacobian cost sixteen solver time-outs per hexahedron
        self.ctx.define(det != 0)
        adj = [[c11, a13 * a32 - a12 * a33, a12 * a23 - a13 * a22],
               [c12, a11 * a33 - a13 * a31, a13 * a21 - a11 * a23],
               [c13, a12 * a31 - a11 * a32, a11 * a22 - a12 * a21]]
        out = np.empty((3, 3), dtype=object)
        for i in range(3):
            for j in range(3):
                out[i, j] = adj[i][j] / det
        return out


def _frac(v):
    return v if isinstance(v, Fraction) else Fraction(float(v))


def _lstsq_exact(A, b):
    """least-squares solution of A x = b for a concrete matrix A of full column rank (all-zero columns get the minimum-norm
    component 0) and a symbolic right-hand side: x = (A^T A)^-1 A^T b in exact rational arithmetic"""
    A = [[_frac(v) for v in row] for row in np.asarray(A, dtype=object)]
    b = list(np.asarray(b, dtype=object))
    ncol = len(A[0])
    keep = [j for j in range(ncol) if any(row[j] != 0 for row in A)]
    k = len(keep)
    N = [[sum(row[keep[i]] * row[keep[j]] for row in A) for j in range(k)] for i in range(k)]
    # Gauss-Jordan inverse of the normal matrix
    M = [list(N[i]) + [Fraction(int(i == j)) for j in range(k)] for i in range(k)]
    for c in range(k):
        piv = next((r for r in range(c, k) if M[r][c] != 0), None)
        if piv is None:
            raise Unsupported("lstsq stub: rank-deficient matrix (other than zero columns)")
        M[c], M[piv] = M[piv], M[c]
        pv = M[c][c]
        M[c] = [v / pv for v in M[c]]
        for r in range(k):
            if r != c and M[r][c] != 0:
                f = M[r][c]
                M[r] = [a - f * bb for a, bb in zip(M[r], M[c])]
    Ninv = [row[k:] for row in M]
    P = [[sum(Ninv[i][l] * A[r][keep[l]] for l in range(k)) for r in range(len(A))] for i in range(k)]     # (A^T A)^-1 A^T
    x = [0.0] * ncol
    for i in range(k):
        acc = 0
        for r in range(len(A)):
            if P[i][r] != 0:
                acc = acc + SymReal(z3.RealVal(str(P[i][r]))) * b[r]
        x[keep[i]] = acc
    return np.array(x, dtype=object), None, k, None


class _GradFacade(npfacade.NPFacade):
    def __init__(self, ctx):
        super().__init__()
        self.linalg = _Linalg(ctx)
        self.linalg.lstsq = lambda A, b, rcond=None: _lstsq_exact(A, b)

    def zeros(self, shape, dtype=None, order="C"):
        if dtype is None:
            z = np.empty(shape, dtype=object, order=order)      # may receive symbolic values later
            z[...] = 0.0
            return z
        return np.zeros(shape, dtype=dtype, order=order)

    def nditer(self, a, flags=(), order="K", **kw):
        if isinstance(a, np.ndarray) and a.dtype == object and "external_loop" in flags and order == "F" and a.ndim == 2:
            return iter([a[:, j] for j in range(a.shape[1])])      # one column per step (object arrays need REFS_OK in numpy)
        return np.nditer(a, flags=list(flags), order=order, **kw)


def _object_columns(orig):
    def __setitem__(self, key, value):
        # df["grad_x"] = 0.0 on a frame of symbolic columns: keep the new column able to hold symbolic results
        if isinstance(key, str) and isinstance(value, float) and any(dt == object for dt in self.dtypes):
            col = np.empty(len(self), dtype=object)
            col[...] = value
            value = col
        return orig(self, key, value)
    return __setitem__


TET_REF = [(0, 0, 0), (1, 0, 0), (0, 1, 0), (0, 0, 1)]
HEX_REF = [(0, 0, 0), (1, 0, 0), (1, 1, 0), (0, 1, 0), (0, 0, 1), (1, 0, 1), (1, 1, 1), (0, 1, 1)]
# element layouts: list of (element_id, [node ids in element order]); node ids with gaps, any order
GRAD_MESHES = {
    "tet_one": [(40, [7, 3, 12, 5])],
    "tet_two_shared_face": [(9, [4, 2, 8, 6]), (3, [2, 8, 6, 11])],
    "hex_one": [(5, [11, 4, 9, 2, 30, 7, 1, 15])],
}


def _det3(m):
    (a11, a12, a13), (a21, a22, a23), (a31, a32, a33) = m
    return a11 * (a22 * a33 - a23 * a32) + a12 * (a23 * a31 - a21 * a33) + a13 * (a21 * a32 - a22 * a31)


def _run_gradient3d(ctx, case):
    import pylife.mesh.gradient as GR
    layout = GRAD_MESHES[case["mesh"]]
    if ctx.sym:
        ctx.patch(GR, "np", _GradFacade(ctx))
        ctx.patch(pd.DataFrame, "__setitem__", _object_columns(pd.DataFrame.__setitem__))
    nodes = []
    for _e, ns in layout:
        for nid in ns:
            if nid not in nodes:
                nodes.append(nid)
    hexa = len(layout[0][1]) == 8
    coords = {}
    for k, nid in enumerate(nodes):
        if case.get("coords") == "symbolic":
            coords[nid] = tuple(ctx.real("%s%d" % (ax, nid)) for ax in "xyz")
        else:
            # concrete (dyadic) node positions: exact rational constants in the symbolic run, floats in the replay
            coords[nid] = tuple((SymReal(z3.RealVal(str(Fraction(float(v))))) if ctx.sym else float(v)) for v in case["coords"][k])
    g = [ctx.real(n) for n in ("gx", "gy", "gz")]
    f0 = ctx.real("f0")
    ctx.hint(sym_and(g[0] == 3, g[1] == -2, g[2] == 4, f0 == 1))        # a non-trivial field for the witness replay
    if case.get("coords") == "symbolic":
        # preferred witness: a well-conditioned element (the float replay of an almost degenerate one says nothing)
        nice = HEX_XYZ if hexa else TET2_XYZ
        ctx.hint(sym_and(*[coords[nid][r] == float(nice[k][r]) for k, nid in enumerate(nodes) for r in range(3)]))
    # non-degenerate elements: the Jacobian of the reference map is regular at every corner
    for _e, ns in layout:
        P = [coords[n] for n in ns]
        if hexa:
            nb = {0: (1, 3, 4), 1: (0, 2, 5), 2: (3, 1, 6), 3: (2, 0, 7), 4: (5, 7, 0), 5: (4, 6, 1), 6: (7, 5, 2), 7: (6, 4, 3)}
            for c, (i, j, k) in nb.items():
                m = [[P[i][r] - P[c][r], P[j][r] - P[c][r], P[k][r] - P[c][r]] for r in range(3)]
                d = _det3(m)
                ctx.assume(d != 0)
        else:
            m = [[P[1][r] - P[0][r], P[2][r] - P[0][r], P[3][r] - P[0][r]] for r in range(3)]
            ctx.assume(_det3(m) != 0)
    field = {nid: g[0] * coords[nid][0] + g[1] * coords[nid][1] + g[2] * coords[nid][2] + f0 for nid in nodes}
    rows = [(nid, e) for e, ns in layout for nid in ns]
    order = case.get("row_order")
    if order == "interleaved" and len(layout) > 1:
        # rows of different elements interleaved; the order inside every element is kept (it defines the element)
        per = [[(nid, e) for nid in ns] for e, ns in layout]
        rows = [r for grp in zip(*per) for r in grp]
    dt = object if ctx.sym else np.float64
    df = pd.DataFrame({"x": np.array([coords[n][0] for n, _ in rows], dtype=dt), "y": np.array([coords[n][1] for n, _ in rows], dtype=dt),
                       "z": np.array([coords[n][2] for n, _ in rows], dtype=dt), "f": np.array([field[n] for n, _ in rows], dtype=dt)},
                      index=pd.MultiIndex.from_tuples(rows, names=["node_id", "element_id"]))
    with warnings.catch_warnings():
        warnings.simplefilter("ignore")
        op = df.gradient_3D
        grad = op.gradient_of("f")
        grad_again = None
        if case.get("again"):
            # the same operator object asked again after the caller stretched the mesh in place (x -> 2 x, z -> z / 2) and
            # re-evaluated the field: the answer belongs to the current mesh
            df["x"] = df["x"] * 2
            df["z"] = df["z"] / 2
            df["f"] = np.array([g[0] * (2 * coords[n][0]) + g[1] * coords[n][1] + g[2] * (coords[n][2] / 2) + f0 for n, _ in rows], dtype=dt)
            grad_again = op.gradient_of("f")
    ctx.signature(("gradient3d", case["mesh"], order, str(case.get("coords"))[:20]))
    if grad_again is not None:
        for nid in nodes:
            got = [grad_again.loc[nid, c] for c in ("df_dx", "df_dy", "df_dz")]
            ctx.claim(eq_struct(got, g) if ctx.sym else ctx.close(got, g, 1e-9), "gradient.linear_exact", ("second call after the mesh changed", nid, got, g))
    ctx.claim(sorted(grad.index) == sorted(nodes) and list(grad.columns) == ["df_dx", "df_dy", "df_dz"], "gradient.index",
              (list(grad.index), list(grad.columns)))
    obs = {}
    for nid in nodes:
        got = [grad.loc[nid, c] for c in ("df_dx", "df_dy", "df_dz")]
        ctx.claim(eq_struct(got, g) if ctx.sym else ctx.close(got, g, 1e-9), "gradient.linear_exact", (nid, got, g))
        obs["n%d" % nid] = got
    return obs


def _mean_fallback(orig):
    def mean(self, *a, **kw):
        ser = self.obj
        if ser.dtype != object:
            return orig(self, *a, **kw)
        # object column (symbolic values): the mean per group by Python arithmetic, groups in sorted key order as pandas does
        keys, vals = [], []
        for key, idx in sorted(self.indices.items()):
            tot = 0
            for i in idx:
                tot = ser.iloc[i] + tot
            keys.append(key)
            vals.append(tot / len(idx))
        return pd.Series(np.array(vals, dtype=object), index=pd.Index(keys, name=self.keys if isinstance(self.keys, str) else None), name=ser.name)
    return mean


def _run_gradient_lsq(ctx, case):
    """least-squares plane operator `Gradient`: exact on a linear field, for any numbering"""
    import pylife.mesh.gradient as GR
    from pandas.core.groupby.generic import SeriesGroupBy
    layout = LSQ_MESHES[case["mesh"]]
    if ctx.sym:
        ctx.patch(GR, "np", _GradFacade(ctx))
        ctx.patch(SeriesGroupBy, "mean", _mean_fallback(SeriesGroupBy.mean))
    nodes = []
    for _e, ns in layout:
        for nid in ns:
            if nid not in nodes:
                nodes.append(nid)
    xyz = LSQ_XYZ.get(case["mesh"], TET2_XYZ)
    coords = {nid: tuple(float(v) for v in xyz[k]) for k, nid in enumerate(nodes)}
    g = [ctx.real(n) for n in ("gx", "gy", "gz")]
    f0 = ctx.real("f0")
    ctx.hint(sym_and(g[0] == 3, g[1] == -2, g[2] == 4, f0 == 1))        # a non-trivial field for the witness replay
    field = {nid: g[0] * coords[nid][0] + g[1] * coords[nid][1] + g[2] * coords[nid][2] + f0 for nid in nodes}
    rows = [(nid, e) for e, ns in layout for nid in ns]
    dt = object if ctx.sym else np.float64
    df = pd.DataFrame({"x": [coords[n][0] for n, _ in rows], "y": [coords[n][1] for n, _ in rows], "z": [coords[n][2] for n, _ in rows],
                       "f": np.array([field[n] for n, _ in rows], dtype=dt)},
                      index=pd.MultiIndex.from_tuples(rows, names=["node_id", "element_id"]))
    with warnings.catch_warnings():
        warnings.simplefilter("ignore")
        grad = df.gradient.gradient_of("f")
    ctx.signature(("gradient_lsq", case["mesh"]))
    ctx.claim(sorted(grad.index) == sorted(nodes) and list(grad.columns) == ["df_dx", "df_dy", "df_dz"], "gradient.index",
              (list(grad.index), list(grad.columns)))
    obs = {}
    for nid in nodes:
        got = [grad.loc[nid, c] for c in ("df_dx", "df_dy", "df_dz")]
        ctx.claim(eq_struct(got, g) if ctx.sym else ctx.close(got, g, 1e-9), "gradient.linear_exact", (nid, got, g))
        obs["n%d" % nid] = got
    return obs


def run(ctx, case):
    _apply_canary(ctx)
    if case.get("kind") == "gradient3d":
        return _run_gradient3d(ctx, case)
    if case.get("kind") == "gradient_lsq":
        return _run_gradient_lsq(ctx, case)
    entries = MESHES[case["mesh"]]
    frac = case["frac"]
    n = len(entries)
    vals = [ctx.real("v%d" % i) for i in range(n)]
    # any sign: for a purely compressive (all-negative) field fraction * maximum lies above the maximum
    ctx.assume(sym_and(*[a != b for a, b in itertools.combinations(vals, 2)]))
    ctx.hint(sym_and(*[sym_and(v <= 32, v >= -32) for v in vals]))
    idx = pd.MultiIndex.from_tuples(entries, names=["element_id", "node_id"])
    dt = object if ctx.sym else np.float64
    df = pd.DataFrame({"x": np.zeros(n), "y": np.zeros(n), "z": np.zeros(n), "val": np.array(vals, dtype=dt)}, index=idx)
    got = [int(v) for v in df.hotspot.calc("val", frac)]
    vmax = vals[0]
    for v in vals[1:]:
        if bool(v > vmax):
            vmax = v
    above = [bool(v >= frac * vmax) for v in vals]
    exp = _oracle(entries, vals, above)
    ctx.signature((case["mesh"], frac, tuple(exp)), trivial=sum(above) < 2)
    ctx.claim([g > 0 for g in got] == above, "hotspot.threshold", (got, above))
    # same partition into components
    same = all((got[i] == got[j]) == (exp[i] == exp[j]) for i in range(n) for j in range(n) if above[i] and above[j])
    ctx.claim(same, "hotspot.components", (got, exp))
    ctx.claim(got == exp, "hotspot.numbering", (got, exp))
    return {"labels": got}
