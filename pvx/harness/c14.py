"""C14  Load collectives and histograms account for every cycle exactly once.

numpy.histogram / numpy.histogram2d are Python code over sort / searchsorted / comparison loops; on object arrays those
loops call the symbolic values' comparison operators, so the histogram clauses run through the real numpy code too."""
import itertools
import math
import warnings

import numpy as np
import pandas as pd

import pylife.stress.collective.load_collective as LC
import pylife.utils.histogram as HI

from ..sym import sym_and, sym_or, sym_not, s_eq, s_ite, s_max, s_min, SymReal
from ..util import eq_struct, mutated
from .. import npfacade

PROPERTY = "C14"
ENCODED = ["pylife.stress.collective.load_collective:LoadCollective._validate",
           "pylife.stress.collective.load_collective:LoadCollective.amplitude",
           "pylife.stress.collective.load_collective:LoadCollective.meanstress",
           "pylife.stress.collective.load_collective:LoadCollective.R",
           "pylife.stress.collective.load_collective:LoadCollective.upper",
           "pylife.stress.collective.load_collective:LoadCollective.lower",
           "pylife.stress.collective.load_collective:LoadCollective.cycles",
           "pylife.stress.collective.load_collective:LoadCollective.scale",
           "pylife.stress.collective.load_collective:LoadCollective.shift",
           "pylife.stress.collective.load_collective:LoadCollective.range_histogram",
           "pylife.stress.collective.load_collective:LoadCollective.histogram",
           "pylife.stress.rainflow.recorders:LoopValueRecorder.histogram", "pylife.stress.rainflow.recorders:LoopValueRecorder.record_values",
           "numpy.lib._histograms_impl:histogram", "numpy.lib._histograms_impl:histogramdd",
           "pylife.utils.histogram:rebin_histogram", "pylife.utils.histogram:_do_rebin_histogram",
           "pylife.utils.histogram:_fail_if_binning_invalid", "pylife.utils.histogram:combine_histogram"]
STUBS = ["pandas.IntervalIndex.from_breaks: an object-dtype array that holds only plain floats (numpy's result type for class limits computed next to symbolic data) is converted to float64 first"]
ASSUMPTIONS = ["floats are modelled as reals",
               "histogram clauses: counts are symbolic and >= 0; totals and compositions are compared with a tolerance of 1e-12 of the total count (overlap fractions are float constants); identity and combine clauses are exact",
               "histogram clauses: counts are symbolic, bin edges concrete (IntervalIndex is float64-backed) and "
               "enumerated from the dyadic grid {0, 0.5, 1, 2, 3, 4}",
               "R = lower/upper with the IEEE cases of the implementation: upper == 0 gives -inf for lower < 0 and "
               "the documented fill value 0 for 0/0"]
OUTSIDE = ("symbolic bin edges "
           "(IntervalIndex is float64-backed; for a number of bins the rows that fix the data span are therefore concrete); "
           "collectives with more rows than the bound; which of two adjacent classes receives a cycle exactly on their "
           "common limit (the property leaves it open)")
RULE = ("one evaluation = one explored path; collective cases: sign/order pattern of from/to per row; histogram "
        "cases: one (source binning, target binning) pair with symbolic counts; distinct = distinct case and path "
        "signature; non-trivial = every path")
LABELS = ["rebin.source_order_independent", "rebin.target_level_order_independent", "coll.upper_lower_amplitude", "coll.mean", "coll.R", "coll.cycles", "coll.range_mean_equiv",
          "coll.scale", "coll.shift", "rebin.total", "rebin.identity", "rebin.compose", "combine.total",
          "combine.per_bin", "hist.total", "hist.one_class", "hist.classes", "hist.marginal"]
GRID = [0.0, 0.5, 1.0, 2.0, 3.0, 4.0]


def bounds(tier):
    return {"collective_rows": "1..%d" % (2 if tier == "quick" else 3),
            "histogrammed_rows": ("1 row: edge lists / IntervalIndex / IntervalArray of 1..%d classes; 2 rows: %s; %s"
                                  "number of bins 1..3: 2 concrete + 1..%d symbolic rows")
                                 % ((2, "one class, edge list", "", 1) if tier == "quick" else (3, "1..2 classes, every form", "3 rows: one class, edge list; ", 2)),
            "histograms_along_an_axis": "2 elements x 1 cycle, 1..2 classes" if tier == "quick" else "2..3 elements, 1..2 cycles each (3 rows in all), 1..2 classes",
            "recorder_histogram": "1..%d recorded loops, 1..3 classes per axis" % (2 if tier == "quick" else 3),
            "binnings": "all gap-free binnings with 1..%d classes on the grid %s; integer binnings 1..3"
                        % (2 if tier == "quick" else 4, GRID)}


def _binnings(maxbins):
    out = []
    for k in range(2, maxbins + 2):
        for br in itertools.combinations(GRID, k):
            out.append(list(br))
    return out


def cases(tier):
    q = tier == "quick"
    out = []
    for m in range(1, (2 if q else 3) + 1):
        for cyc in (False, True):
            out.append({"kind": "fromto", "m": m, "cycles": cyc, "_weight": 9 ** m})
            out.append({"kind": "rangemean", "m": m, "cycles": cyc, "_weight": 9 ** m})
        out.append({"kind": "scale", "m": m, "_weight": 9 ** m * 3})
        out.append({"kind": "shift", "m": m, "_weight": 9 ** m})
    # histogramming of a collective: explicit class limits in every form, and a number of classes
    hb = [[0.0, 4.0], [1.0, 2.0], [0.0, 1.0, 3.0], [0.5, 2.0, 4.0]] + ([] if q else [[0.0, 0.5, 2.0, 4.0], [1.0, 2.0, 3.0, 4.0]])
    for m in range(1, (2 if q else 3) + 1):
        for edges in hb:
            for spec in ("edges", "interval_index", "interval_array"):
                for layout in ("unique", "repeated_labels"):
                    if layout == "repeated_labels" and (m == 1 or spec != "edges"):
                        continue
                    # the number of paths grows like (classes * 7) ** (2 * rows): the larger row counts only with one class
                    if m >= 2 and len(edges) > 2 and (q or m > 2):
                        continue
                    if m >= 2 and q and spec != "edges":
                        continue
                    if m >= 3 and (spec != "edges" or edges != hb[0] or layout != "unique"):
                        continue
                    c = {"kind": "hist", "m": m, "edges": edges, "spec": spec, "layout": layout, "_weight": (3 * len(edges)) ** (2 * m)}
                    if m >= 2:
                        c["_split"] = 4 if m == 2 else 7
                    out.append(c)
    for m in range(1, (1 if q else 2) + 1):
        for nb in (1, 2, 3):
            for span in (((0.0, 1.0), (3.0, -1.0)), ((-2.0, -2.0), (1.0, 5.0))):
                c = {"kind": "hist_count", "m": m, "bins": nb, "span": [list(x) for x in span], "_weight": (3 * nb) ** (2 * m)}
                if m >= 2:
                    c["_split"] = 4
                out.append(c)
    # histograms per element along an index axis (extra index level)
    for shape, edges in ([([1, 1], [0.0, 4.0]), ([1, 1], [0.0, 1.0, 3.0])] + ([] if q else [([2, 1], [0.0, 4.0]), ([1, 1, 1], [0.0, 4.0])])):
        out.append({"kind": "hist_axis", "shape": shape, "edges": edges, "_weight": (6 * len(edges)) ** (2 * sum(shape)), "_split": 4 if sum(shape) == 2 else 6})
    # from/to histogram of a rainflow recorder
    for m in ((1, 2) if q else (1, 2, 3)):
        for ef, et, spec in (([-1.0, 0.0, 2.0], [-1.0, 0.0, 2.0], "edges"), ([-1.0, 0.0, 2.0], [-1.0, 0.0, 2.0], "pair"),
                             ([-2.0, 2.0], [-1.0, 0.5, 3.0], "pair"), ([0.0, 1.0, 2.0, 4.0], [-4.0, 4.0], "pair")):
            if m >= 2 and (q or m == 3) and spec != "edges":
                continue
            c = {"kind": "hist_recorder", "m": m, "edges_from": ef, "edges_to": et, "spec": spec, "_weight": 25 ** m}
            if m >= 2:
                c["_split"] = 4 if m == 2 else 7
            out.append(c)
    bs = _binnings(2 if q else 4)
    rng = np.random.default_rng(14)
    pairs = []
    for src in bs:
        for tgt in bs:
            if tgt[0] <= src[0] and tgt[-1] >= src[-1]:
                pairs.append((src, tgt))
    if q:
        pairs = [pairs[i] for i in sorted(rng.choice(len(pairs), size=min(150, len(pairs)), replace=False))]
    # group many pairs into one work item (each pair is a single path)
    step = 12
    for i in range(0, len(pairs), step):
        out.append({"kind": "rebin", "pairs": pairs[i:i + step], "_weight": 5})
    # integer-typed counts, target classes cutting through source classes
    out.append({"kind": "rebin", "ints": True, "_weight": 5,
                "pairs": [([0.0, 1.0, 2.0], [0.0, 0.5, 4.0]), ([0.0, 2.0, 4.0], [0.0, 1.0, 3.0, 4.0]), ([1.0, 2.0], [0.0, 1.5, 3.0])]})
    for src in bs[:: (3 if q else 1)]:
        out.append({"kind": "rebin_int", "src": src, "_weight": 1})
    # source classes listed in a permuted order (e.g. after sort_values / concat): result must not depend on it
    three = [b for b in bs if len(b) == 4] or [b for b in bs if len(b) == 3]
    for src in three[:: (4 if q else 1)]:
        m = len(src) - 1
        for perm in list(itertools.permutations(range(m)))[1:]:
            out.append({"kind": "rebin_perm", "src": src, "perm": list(perm), "_weight": 2})
    # two-dimensional histograms (MultiIndex), target levels given in either order
    two = [b for b in bs if len(b) == 3][:: (5 if q else 2)]
    for a in two[:3 if q else 6]:
        for b in two[:2 if q else 4]:
            for ta, tb in (([0.0, 2.0, 4.0], [0.0, 1.0, 4.0]), ([0.0, 0.5, 1.0, 4.0], [0.0, 4.0])):
                out.append({"kind": "rebin_2d", "a": a, "b": b, "ta": ta, "tb": tb, "_weight": 6})
    comp = []
    for a in bs:
        for b in bs:
            if set(a) <= set(b) and b[0] <= a[0] and b[-1] >= a[-1] and a != b:
                for c in bs:
                    if c[0] <= a[0] and c[-1] >= a[-1]:
                        comp.append((a, b, c))
    comp = [comp[i] for i in sorted(rng.choice(len(comp), size=min(60 if q else 600, len(comp)), replace=False))]
    for i in range(0, len(comp), step):
        out.append({"kind": "compose", "triples": comp[i:i + step], "_weight": 5})
    cmb = []
    for a in bs:
        for b in bs:
            cmb.append((a, b))
    cmb = [cmb[i] for i in sorted(rng.choice(len(cmb), size=min(40 if q else 300, len(cmb)), replace=False))]
    for i in range(0, len(cmb), step):
        out.append({"kind": "combine", "pairs": cmb[i:i + step], "_weight": 5})
    return out


def _apply_canary(ctx):
    cn = ctx.canary
    if cn == "overlap_normalised_by_target":
        ctx.patch(HI, "_do_rebin_histogram",
                  mutated(HI._do_rebin_histogram, "return overlap / test_interval.length", "return overlap / reference_interval.length"))
    elif cn == "amplitude_not_abs":
        ctx.patch(LC.LoadCollective, "amplitude",
                  property(mutated(LC.LoadCollective.amplitude.fget, "rng = np.abs(fr-to)", "rng = fr-to")))
    elif cn == "shift_also_cycles":
        ctx.patch(LC.LoadCollective, "shift",
                  mutated(LC.LoadCollective.shift, "obj[['from', 'to']] = obj[['from', 'to']].add(diffs, axis=0)",
                          "obj[['from', 'to']] = obj[['from', 'to']].add(diffs, axis=0)\n    if 'cycles' in obj: obj['cycles'] = obj['cycles'] + diffs"))
    elif cn == "combine_first_only":
        ctx.patch(HI, "combine_histogram",
                  mutated(HI.combine_histogram, "combined = concat.groupby(concat.index).agg(method)",
                          "combined = concat.groupby(concat.index).agg('first' if method == 'sum' else method)"))
    elif cn == "range_histogram_of_amplitudes":
        ctx.patch(LC.LoadCollective, "range_histogram",
                  mutated(LC.LoadCollective.range_histogram, "np.histogram(group * 2., bins)", "np.histogram(group, bins)"))
    elif cn == "mean_classes_labelled_with_range_limits":
        ctx.patch(LC.LoadCollective, "histogram",
                  mutated(LC.LoadCollective.histogram, "pd.IntervalIndex.from_breaks(mean_bins)", "pd.IntervalIndex.from_breaks(range_bins)"))
    elif cn == "recorder_histogram_levels_swapped":
        import pylife.stress.rainflow.recorders as REC
        ctx.patch(REC.LoopValueRecorder, "histogram",
                  mutated(REC.LoopValueRecorder.histogram, "pd.MultiIndex.from_product([index_fr, index_to], names=['from', 'to'])",
                          "pd.MultiIndex.from_product([index_to, index_fr], names=['from', 'to'])"))
    elif cn is not None:
        raise RuntimeError("unknown canary " + cn)


CANARIES = [
    {"name": "overlap_normalised_by_target", "cases": [{"kind": "rebin", "pairs": [([0.0, 1.0, 2.0], [0.0, 0.5, 4.0])]}]},
    {"name": "amplitude_not_abs", "cases": [{"kind": "fromto", "m": 1, "cycles": False}]},
    {"name": "shift_also_cycles", "cases": [{"kind": "shift", "m": 1}]},
    {"name": "combine_first_only", "cases": [{"kind": "combine", "pairs": [([0.0, 1.0, 2.0], [0.0, 1.0, 4.0])]}]},
    {"name": "range_histogram_of_amplitudes", "cases": [{"kind": "hist", "m": 1, "edges": [0.0, 1.0, 3.0], "spec": "edges", "layout": "unique"}]},
    {"name": "mean_classes_labelled_with_range_limits", "cases": [{"kind": "hist_count", "m": 1, "bins": 2, "span": [[0.0, 1.0], [3.0, -1.0]]}]},
    {"name": "recorder_histogram_levels_swapped", "cases": [{"kind": "hist_recorder", "m": 1, "edges_from": [-2.0, 2.0], "edges_to": [-1.0, 0.5, 3.0], "spec": "pair"}]},
]
QUICK_CANARIES = 7


def _col(ctx, vals):
    return np.array(vals, dtype=object if ctx.sym else np.float64)


def _oracle_R(lower, upper):
    """lower/upper with the implementation's IEEE cases"""
    if upper == 0:
        if lower < 0:
            return float("-inf")
        return 0.0
    return lower / upper


def _total(series):
    t = 0
    for v in list(series):
        t = v + t
    return t


TOL = 1e-12   # relative to the total count: overlap fractions such as fl(1/3) + fl(2/3) differ from 1 by 2**-54


def _close(a, b, scale):
    return abs(a - b) <= TOL * scale


def _all_close(xs, ys, scale):
    if len(xs) != len(ys):
        return False
    return sym_and(*[_close(a, b, scale) for a, b in zip(xs, ys)])


def _hist(ctx, breaks, prefix, ints=False):
    n = len(breaks) - 1
    vals = [(ctx.int if ints else ctx.real)("%s%d" % (prefix, i)) for i in range(n)]
    for v in vals:
        ctx.assume(v >= 0)      # counts
    if ints:
        # whole-number counts in an integer-typed Series (what np.histogram returns); dtype effects show in the concrete
        # replay of the path witness, so the witness gets odd counts
        ctx.hint(sym_and(*[v == 3 for v in vals]))
        col = np.array(vals, dtype=object) if ctx.sym else np.array([int(round(v)) for v in vals], dtype=np.int64)
        return vals, pd.Series(col, index=pd.IntervalIndex.from_breaks(breaks), name="cycles")
    return vals, pd.Series(_col(ctx, vals), index=pd.IntervalIndex.from_breaks(breaks), name="cycles")


def run(ctx, case):
    _apply_canary(ctx)
    kind = case["kind"]
    if kind in ("fromto", "rangemean", "scale", "shift"):
        return _run_collective(ctx, case)
    if kind in ("hist", "hist_count"):
        with warnings.catch_warnings():
            warnings.simplefilter("ignore")
            return _run_hist(ctx, case)
    if kind == "hist_axis":
        with warnings.catch_warnings():
            warnings.simplefilter("ignore")
            return _run_hist_axis(ctx, case)
    if kind == "hist_recorder":
        with warnings.catch_warnings():
            warnings.simplefilter("ignore")
            return _run_hist_recorder(ctx, case)
    with warnings.catch_warnings():
        warnings.simplefilter("ignore")
        if kind == "rebin":
            outs = []
            for src, tgt in case["pairs"]:
                vals, h = _hist(ctx, src, "h", case.get("ints", False))
                r = HI.rebin_histogram(h, pd.IntervalIndex.from_breaks(tgt))
                ctx.signature((kind, tuple(src), tuple(tgt)))
                ctx.claim(len(r) == len(tgt) - 1, "rebin.total")
                ctx.claim(_close(_total(r), _total(vals), _total(vals)), "rebin.total", (src, tgt, list(r)))
                if list(src) == list(tgt):
                    ctx.claim(eq_struct(list(r), vals), "rebin.identity", (src, list(r)))
                outs.append(list(r))
            # the same binning is always part of the family: make sure the identity clause is reached
            vals, h = _hist(ctx, case["pairs"][0][0], "h", case.get("ints", False))
            r = HI.rebin_histogram(h, h.index)
            ctx.claim(eq_struct(list(r), vals), "rebin.identity", (list(r),))
            return outs
        if kind == "rebin_int":
            src = case["src"]
            outs = []
            for k in (1, 2, 3):
                vals, h = _hist(ctx, src, "h")
                r = HI.rebin_histogram(h, k)
                ctx.signature((kind, tuple(src), k))
                ctx.claim(len(r) == k, "rebin.total")
                ctx.claim(_close(_total(r), _total(vals), _total(vals)), "rebin.total", (src, k, list(r)))
                outs.append(list(r))
            return outs
        if kind == "rebin_perm":
            src, perm = case["src"], case["perm"]
            vals, h = _hist(ctx, src, "h")
            hp = h.iloc[perm]
            outs = []
            for k in (1, 2, len(vals), 5):
                ref = HI.rebin_histogram(h, k)
                r = HI.rebin_histogram(hp, k)
                ctx.signature((kind, tuple(src), tuple(perm), k))
                ctx.claim(_close(_total(r), _total(vals), _total(vals)), "rebin.total", (src, perm, k, list(r)))
                ok = list(r.index) == list(ref.index)
                ctx.claim(ok, "rebin.source_order_independent", (list(r.index), list(ref.index)))
                if ok:
                    ctx.claim(_all_close(list(r), list(ref), _total(vals)), "rebin.source_order_independent", (list(r), list(ref)))
                outs.append(list(r))
            tgt = pd.IntervalIndex.from_breaks([GRID[0], GRID[-1]])
            r = HI.rebin_histogram(hp, pd.IntervalIndex.from_breaks(src))
            ctx.claim(_all_close(list(r), vals, _total(vals)), "rebin.identity", ("permuted source to its sorted binning", list(r)))
            return outs
        if kind == "rebin_2d":
            a, b, ta, tb = case["a"], case["b"], case["ta"], case["tb"]
            ia, ib = pd.IntervalIndex.from_breaks(a), pd.IntervalIndex.from_breaks(b)
            idx = pd.MultiIndex.from_product([ia, ib], names=["range", "mean"])
            vals = [ctx.real("h%d" % i) for i in range(len(idx))]
            for v in vals:
                ctx.assume(v >= 0)
            h = pd.Series(_col(ctx, vals), index=idx, name="cycles")
            ita, itb = pd.IntervalIndex.from_breaks(ta), pd.IntervalIndex.from_breaks(tb)
            t_rm = pd.MultiIndex.from_product([ita, itb], names=["range", "mean"])
            t_mr = pd.MultiIndex.from_product([itb, ita], names=["mean", "range"])
            r1 = HI.rebin_histogram(h, t_rm)
            r2 = HI.rebin_histogram(h, t_mr)
            ctx.signature((kind, tuple(a), tuple(b), tuple(ta), tuple(tb)))
            tot = _total(vals)
            ctx.claim(_close(_total(r1), tot, tot), "rebin.total", ("2d", list(r1)))
            ctx.claim(_close(_total(r2), tot, tot), "rebin.total", ("2d, target levels in the other order", list(r2)))
            # per class: both ways of writing the target give the same result
            d1 = {(k[0], k[1]): v for k, v in zip(r1.index, list(r1))}
            names2 = list(r2.index.names)
            d2 = {}
            for k, v in zip(r2.index, list(r2)):
                kk = dict(zip(names2, k))
                d2[(kk["range"], kk["mean"])] = v
            ok = set(d1) == set(d2)
            ctx.claim(ok, "rebin.target_level_order_independent", (sorted(map(str, d1)), sorted(map(str, d2))))
            if ok:
                ctx.claim(sym_and(*[_close(d1[k], d2[k], tot) for k in d1]), "rebin.target_level_order_independent", (list(r1), list(r2)))
            # the histogram's own binning is the identity
            r3 = HI.rebin_histogram(h, idx)
            d3 = {k: v for k, v in zip(r3.index, list(r3))}
            ctx.claim(sym_and(*[_close(d3[k], v, tot) for k, v in zip(idx, vals)]) if set(d3) == set(idx) else False,
                      "rebin.identity", ("2d", list(r3)))
            return [list(r1), list(r2)]
        if kind == "compose":
            outs = []
            for a, b, c in case["triples"]:
                vals, h = _hist(ctx, a, "h")
                ib, ic = pd.IntervalIndex.from_breaks(b), pd.IntervalIndex.from_breaks(c)
                direct = HI.rebin_histogram(h, ic)
                via = HI.rebin_histogram(HI.rebin_histogram(h, ib), ic)
                ctx.signature((kind, tuple(a), tuple(b), tuple(c)))
                ctx.claim(_all_close(list(via), list(direct), _total(vals)), "rebin.compose", (a, b, c, list(via), list(direct)))
                outs.append(list(via))
            return outs
        if kind == "combine":
            outs = []
            for a, b in case["pairs"]:
                va, ha = _hist(ctx, a, "h")
                vb, hb = _hist(ctx, b, "g")
                r = HI.combine_histogram([ha, hb], method="sum")
                ctx.signature((kind, tuple(a), tuple(b)))
                ctx.claim(s_eq(_total(r), _total(va) + _total(vb)), "combine.total", (a, b, list(r)))
                # per class: every distinct interval carries the sum of the inputs' counts on that interval
                exp = {}
                for iv, v in list(zip(ha.index, va)) + list(zip(hb.index, vb)):
                    exp[iv] = exp[iv] + v if iv in exp else v
                ok = set(r.index) == set(exp) and len(r) == len(exp)
                ctx.claim(ok, "combine.per_bin", (list(r.index), list(exp)))
                if ok:
                    ctx.claim(sym_and(*[s_eq(r[iv], exp[iv]) for iv in exp]), "combine.per_bin", (a, b, list(r)))
                outs.append(list(r))
            return outs
    raise RuntimeError("unknown kind")


def _count(conds):
    t = 0
    for c in conds:
        t = t + s_ite(c, 1, 0)
    return t


def _levels(result, names):
    """class limits per level of a histogram result, and per row of the result the tuple of (left, right) per level"""
    idx = result.index
    if isinstance(idx, pd.MultiIndex):
        keys = [tuple((float(iv.left), float(iv.right)) for iv in (k[idx.names.index(n)] for n in names)) for k in idx]
    else:
        keys = [((float(iv.left), float(iv.right)),) for iv in idx]
    return keys


def _check_hist(ctx, result, coords, names, given, what):
    """result: histogram Series; coords[i] = tuple of the coordinates of cycle i for the levels in `names`;
    given: the class limits that were asked for per level (None: a number of classes, limits chosen by numpy)."""
    keys = _levels(result, names)
    counts = [result.iloc[i] for i in range(len(result))]
    nlev = len(names)
    lims = []
    for lv in range(nlev):
        cl = sorted(set(k[lv] for k in keys))
        ok = all(cl[i][1] == cl[i + 1][0] for i in range(len(cl) - 1)) and all(a < b for a, b in cl)
        ctx.claim(ok, "hist.classes", (what, names[lv], "classes are not a gap-free sequence", cl))
        if given is not None and given[lv] is not None:
            ctx.claim(cl == [(given[lv][i], given[lv][i + 1]) for i in range(len(given[lv]) - 1)], "hist.classes",
                      (what, names[lv], "class limits differ from the requested ones", cl, given[lv]))
        lims.append((cl[0][0], cl[-1][1]))
    nclass = 1
    for lv in range(nlev):
        nclass *= len(set(k[lv] for k in keys))
    ctx.claim(len(keys) == nclass and len(set(keys)) == nclass, "hist.classes", (what, "not one row per class", keys))
    inside = [sym_and(*[sym_and(lims[lv][0] <= c[lv], c[lv] <= lims[lv][1]) for lv in range(nlev)]) for c in coords]
    tot = 0
    for v in counts:
        tot = tot + v
    ctx.claim(s_eq(tot, _count(inside)), "hist.total", (what, "sum of the class counts", tot, "cycles inside", counts))
    for k, v in zip(keys, counts):
        closure = [sym_and(*[sym_and(k[lv][0] <= c[lv], c[lv] <= k[lv][1]) for lv in range(nlev)]) for c in coords]
        interior = [sym_and(*[sym_and(k[lv][0] < c[lv], c[lv] < k[lv][1]) for lv in range(nlev)]) for c in coords]
        ctx.claim(sym_and(v <= _count(closure), v >= _count(interior)), "hist.one_class", (what, "class", k, "count", v))
    return keys, counts, lims


def _concrete_breaks(orig):
    def from_breaks(breaks, *a, **kw):
        if isinstance(breaks, np.ndarray) and breaks.dtype == object and all(isinstance(v, (int, float, np.floating, np.integer)) for v in breaks):
            breaks = breaks.astype(np.float64)     # an object array of plain floats (numpy's result type next to symbolic data)
        return orig(breaks, *a, **kw)
    return from_breaks


def _run_hist(ctx, case):
    kind, m = case["kind"], case["m"]
    if ctx.sym:
        ctx.patch(pd.IntervalIndex, "from_breaks", _concrete_breaks(pd.IntervalIndex.from_breaks))
    if kind == "hist":
        fr = [ctx.real("f%d" % i) for i in range(m)]
        to = [ctx.real("t%d" % i) for i in range(m)]
        edges = case["edges"]
        ctx.hint(sym_and(*[sym_and(v >= -8, v <= 8) for v in fr + to]))
        bins = {"edges": list(edges), "interval_index": pd.IntervalIndex.from_breaks(edges),
                "interval_array": pd.arrays.IntervalArray.from_breaks(edges)}[case["spec"]]
        given = [list(edges), list(edges)]
        labels = [7] * m if case["layout"] == "repeated_labels" else [10 * i + 3 for i in range(m)]
    else:
        (f0, t0), (f1, t1) = case["span"]
        fr = [f0, f1] + [ctx.real("f%d" % i) for i in range(m)]
        to = [t0, t1] + [ctx.real("t%d" % i) for i in range(m)]
        r0, r1 = sorted((abs(f0 - t0), abs(f1 - t1)))
        u0, u1 = sorted(((f0 + t0) / 2, (f1 + t1) / 2))
        for f, t in zip(fr[2:], to[2:]):
            rg = s_max(f, t) - s_min(f, t)
            ctx.assume(sym_and(r0 <= rg, rg <= r1, 2 * u0 <= f + t, f + t <= 2 * u1))   # the concrete rows span the data
        bins = case["bins"]
        given = None
        labels = [10 * i + 3 for i in range(len(fr))]
    n = len(fr)
    df = pd.DataFrame({"from": _col(ctx, fr), "to": _col(ctx, to)}, index=pd.Index(labels, name="cycle_number"))
    lc = df.load_collective
    rng = [s_max(f, t) - s_min(f, t) for f, t in zip(fr, to)]
    mean = [(f + t) / 2 for f, t in zip(fr, to)]
    rh = lc.range_histogram(bins).to_pandas()
    h2 = lc.histogram(bins).to_pandas()
    ctx.claim(list(rh.index.names) == ["range"] and list(h2.index.names) == ["range", "mean"], "hist.classes", "level names")
    k1, c1, l1 = _check_hist(ctx, rh, [(r,) for r in rng], ["range"], None if given is None else given[:1], "range_histogram")
    k2, c2, l2 = _check_hist(ctx, h2, list(zip(rng, mean)), ["range", "mean"], given, "histogram")
    ctx.signature((kind, m, str(case.get("edges", case.get("bins"))), case.get("spec"), tuple(int(v) for v in c1), tuple(int(v) for v in c2)),
                  trivial=not any(int(v) for v in c1))
    # marginal: with every mean inside the covered mean range the range histogram is the sum over the mean classes
    marg = {}
    for k, v in zip(k2, c2):
        marg[k[0]] = marg.get(k[0], 0) + v
    same_classes = sorted(marg) == sorted(k[0] for k in k1)
    ctx.claim(same_classes, "hist.marginal", ("range classes differ", sorted(marg), k1))
    if same_classes:
        all_means_inside = sym_and(*[sym_and(l2[1][0] <= u, u <= l2[1][1]) for u in mean])
        agree = all(float(marg[k[0]]) == float(v) for k, v in zip(k1, c1))
        ctx.claim(sym_or(sym_not(all_means_inside), agree), "hist.marginal", (c1, [marg[k[0]] for k in k1]))
    return {"range_histogram": [float(v) for v in c1], "histogram": [float(v) for v in c2]}


def _run_hist_axis(ctx, case):
    """histograms per element of a collective with an extra index level (aggregation along `cycle_number`)"""
    if ctx.sym:
        ctx.patch(pd.IntervalIndex, "from_breaks", _concrete_breaks(pd.IntervalIndex.from_breaks))
    shape, edges = case["shape"], case["edges"]          # cycles per element
    elements = [30, 10, 20][:len(shape)]
    tuples, fr, to, owner = [], [], [], []
    for e, ncyc in zip(elements, shape):
        for c in range(ncyc):
            i = len(fr)
            tuples.append((e, c))
            fr.append(ctx.real("f%d" % i))
            to.append(ctx.real("t%d" % i))
            owner.append(e)
    ctx.hint(sym_and(*[sym_and(v >= -8, v <= 8) for v in fr + to]))
    idx = pd.MultiIndex.from_tuples(tuples, names=["element_id", "cycle_number"])
    df = pd.DataFrame({"from": _col(ctx, fr), "to": _col(ctx, to)}, index=idx)
    lc = df.load_collective
    rng = [s_max(f, t) - s_min(f, t) for f, t in zip(fr, to)]
    mean = [(f + t) / 2 for f, t in zip(fr, to)]
    rh = lc.range_histogram(list(edges), "cycle_number").to_pandas()
    h2 = lc.histogram(list(edges), "cycle_number").to_pandas()
    ctx.claim(list(rh.index.names) == ["element_id", "range"] and list(h2.index.names) == ["element_id", "range", "mean"],
              "hist.classes", ("level names", list(rh.index.names), list(h2.index.names)))
    ctx.claim(sorted(set(rh.index.get_level_values("element_id"))) == sorted(elements) and
              sorted(set(h2.index.get_level_values("element_id"))) == sorted(elements), "hist.classes", "one histogram per element")
    obs = {}
    sig = []
    for e in elements:
        rows = [i for i, o in enumerate(owner) if o == e]
        r1 = rh.xs(e, level="element_id")
        r2 = h2.xs(e, level="element_id")
        k1, c1, l1 = _check_hist(ctx, r1, [(rng[i],) for i in rows], ["range"], [list(edges)], "range_histogram of element %d" % e)
        k2, c2, l2 = _check_hist(ctx, r2, [(rng[i], mean[i]) for i in rows], ["range", "mean"], [list(edges), list(edges)], "histogram of element %d" % e)
        marg = {}
        for k, v in zip(k2, c2):
            marg[k[0]] = marg.get(k[0], 0) + v
        all_means_inside = sym_and(*[sym_and(l2[1][0] <= mean[i], mean[i] <= l2[1][1]) for i in rows])
        agree = sorted(marg) == sorted(k[0] for k in k1) and all(float(marg[k[0]]) == float(v) for k, v in zip(k1, c1))
        ctx.claim(sym_or(sym_not(all_means_inside), agree), "hist.marginal", (e, c1, marg))
        obs["e%d" % e] = [float(v) for v in c1] + [float(v) for v in c2]
        sig.append(tuple(int(v) for v in c1))
    ctx.signature(("hist_axis", tuple(shape), str(edges), tuple(sig)), trivial=not any(any(x) for x in sig))
    return obs


def _run_hist_recorder(ctx, case):
    """LoopValueRecorder.histogram: from/to matrix of the recorded loops (values recorded in two calls)"""
    import pylife.stress.rainflow.recorders as REC
    m = case["m"]
    if ctx.sym:
        ctx.patch(pd.IntervalIndex, "from_breaks", _concrete_breaks(pd.IntervalIndex.from_breaks))
        ctx.patch(REC, "np", npfacade.FACADE)
    fr = [ctx.real("f%d" % i) for i in range(m)]
    to = [ctx.real("t%d" % i) for i in range(m)]
    ctx.hint(sym_and(*[sym_and(v >= -8, v <= 8) for v in fr + to]))
    rec = REC.LoopValueRecorder()
    k = (m + 1) // 2
    ef, et = case["edges_from"], case["edges_to"]
    bins = list(ef) if (ef == et and len(ef) > 2 and case.get("spec") != "pair") else [np.array(ef), np.array(et)]
    rec.record_values(_col(ctx, fr[:k]), _col(ctx, to[:k]))
    if m > k:
        # streaming use: the histogram and the collective are read between two recordings
        h0 = rec.histogram(bins)
        _check_hist(ctx, h0, list(zip(fr[:k], to[:k])), ["from", "to"], [list(ef), list(et)], "recorder histogram after the first recording")
        ctx.claim(len(rec.collective) == k, "hist.total", "collective after the first recording")
        rec.record_values(_col(ctx, fr[k:]), _col(ctx, to[k:]))
    h = rec.histogram(bins)
    ctx.claim(list(h.index.names) == ["from", "to"], "hist.classes", "level names")
    keys, counts, lims = _check_hist(ctx, h, list(zip(fr, to)), ["from", "to"], [list(ef), list(et)], "recorder histogram")
    ctx.signature(("hist_recorder", m, str(ef), str(et), tuple(int(v) for v in counts)), trivial=not any(int(v) for v in counts))
    coll = rec.collective
    ctx.claim(eq_struct(list(coll["from"]), fr) and eq_struct(list(coll["to"]), to), "hist.total", "recorded loops")
    return {"histogram": [float(v) for v in counts]}


def _run_collective(ctx, case):
    kind, m = case["kind"], case["m"]
    fr = [ctx.real("f%d" % i) for i in range(m)]
    to = [ctx.real("t%d" % i) for i in range(m)]
    idx = pd.Index([10 * i + 3 for i in range(m)], name="cycle_number")
    if kind == "rangemean":
        # from/to given through the range/mean description: range r >= 0 (a range), mean mu
        rg = [ctx.real("r%d" % i) for i in range(m)]
        mu = [ctx.real("u%d" % i) for i in range(m)]
        for r in rg:
            ctx.assume(r >= 0)
        data = {"range": _col(ctx, rg), "mean": _col(ctx, mu)}
        cyc = None
        if case["cycles"]:
            cyc = [ctx.real("c%d" % i) for i in range(m)]
            data["cycles"] = _col(ctx, cyc)
        lc = pd.DataFrame(data, index=idx).load_collective
        fr_eq = pd.DataFrame({"from": _col(ctx, [u - r / 2 for r, u in zip(rg, mu)]),
                              "to": _col(ctx, [u + r / 2 for r, u in zip(rg, mu)])}, index=idx).load_collective
        ctx.signature((kind, m, case["cycles"]))
        obs = {}
        for name in ("amplitude", "meanstress", "upper", "lower"):
            a, b = list(getattr(lc, name)), list(getattr(fr_eq, name))
            ctx.claim(eq_struct(a, b), "coll.range_mean_equiv", (name, a, b))
            obs[name] = a
        ctx.claim(eq_struct(list(lc.amplitude), [r / 2 for r in rg]), "coll.range_mean_equiv")
        ctx.claim(eq_struct(list(lc.meanstress), mu), "coll.range_mean_equiv")
        ctx.claim(eq_struct(list(lc.cycles), cyc if cyc is not None else [1.0] * m), "coll.cycles")
        return obs

    data = {"from": _col(ctx, fr), "to": _col(ctx, to)}
    cyc = None
    if case.get("cycles") or kind in ("scale", "shift"):
        cyc = [ctx.real("c%d" % i) for i in range(m)]
        data["cycles"] = _col(ctx, cyc)
    df = pd.DataFrame(data, index=idx)
    lc = df.load_collective
    amp, mean, up, lo = list(lc.amplitude), list(lc.meanstress), list(lc.upper), list(lc.lower)
    ctx.signature((kind, m, case.get("cycles")))
    if kind == "fromto":
        R = list(lc.R)
        ctx.claim(sym_and(*[u - l == 2 * a for u, l, a in zip(up, lo, amp)]), "coll.upper_lower_amplitude", (up, lo, amp))
        ctx.claim(sym_and(*[a >= 0 for a in amp]), "coll.upper_lower_amplitude")
        ctx.claim(sym_and(*[sym_and(u == s_max(f, t), l == s_min(f, t)) for u, l, f, t in zip(up, lo, fr, to)]),
                  "coll.upper_lower_amplitude")
        ctx.claim(sym_and(*[(u + l) / 2 == mm for u, l, mm in zip(up, lo, mean)]), "coll.mean", (up, lo, mean))
        for r, l, u in zip(R, lo, up):
            exp = _oracle_R(l, u)
            ctx.claim(eq_struct(r, exp), "coll.R", (r, exp))
        ctx.claim(eq_struct(list(lc.cycles), cyc if cyc is not None else [1.0] * m), "coll.cycles")
        return {"amplitude": amp, "mean": mean, "upper": up, "lower": lo, "R": R}
    if kind == "scale":
        k = ctx.real("k")
        new = lc.scale(k)
        exp_from, exp_to = [k * f for f in fr], [k * t for t in to]
        label = "coll.scale"
        ctx.claim(eq_struct(list(new.amplitude), [abs(k) * a for a in amp]), label, "amplitude")
        ctx.claim(eq_struct(list(new.meanstress), [k * mm for mm in mean]), label, "mean")
    else:
        d = ctx.real("d")
        new = lc.shift(d)
        exp_from, exp_to = [f + d for f in fr], [t + d for t in to]
        label = "coll.shift"
        ctx.claim(eq_struct(list(new.amplitude), amp), label, "amplitude")
        ctx.claim(eq_struct(list(new.meanstress), [mm + d for mm in mean]), label, "mean")
    nd = new.to_pandas()
    ctx.claim(eq_struct(list(nd["from"]), exp_from), label, "from")
    ctx.claim(eq_struct(list(nd["to"]), exp_to), label, "to")
    ctx.claim(eq_struct(list(new.cycles), cyc), "coll.cycles", "cycles changed by scale/shift")
    return {"from": list(nd["from"]), "to": list(nd["to"]), "cycles": list(new.cycles)}
