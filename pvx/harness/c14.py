"""C14  Load collectives and histograms account for every cycle exactly once (the clauses that are
executed as Python/pandas code; numpy.histogram/histogram2d are C code on float64 and not claimed)."""
import itertools
import math
import warnings

import numpy as np
import pandas as pd

import pylife.stress.collective.load_collective as LC
import pylife.utils.histogram as HI

from ..sym import sym_and, sym_or, sym_not, s_eq, s_ite, s_max, s_min, SymReal
from ..util import eq_struct, mutated

PROPERTY = "C14"
ENCODED = ["pylife.stress.collective.load_collective:LoadCollective._validate",
           "pylife.stress.collective.load_collective:LoadCollective.amplitude",
           "pylife.stress.collective.load_collective:LoadCollective.meanstress",
           "pylife.stress.collective.load_collective:LoadCollective.R",
           "pylife.stress.collective.load_collective:LoadCollective.upper",
           "pylife.stress.collective.load_collective:LoadCollective.lower",
           "pylife.stress.collective.load_collective:LoadCollective.cycles",
           "pylife.stress.collective.load_collective:LoadCollective.scale",
           "pylife.stress.collective.load_collective:LoadCollective.shift",
           "pylife.utils.histogram:rebin_histogram", "pylife.utils.histogram:_do_rebin_histogram",
           "pylife.utils.histogram:_fail_if_binning_invalid", "pylife.utils.histogram:combine_histogram"]
STUBS = []
ASSUMPTIONS = ["floats are modelled as reals",
               "histogram clauses: counts are symbolic and >= 0; totals and compositions are compared with a tolerance of 1e-12 of the total count (overlap fractions are float constants); identity and combine clauses are exact",
               "histogram clauses: counts are symbolic, bin edges concrete (IntervalIndex is float64-backed) and "
               "enumerated from the dyadic grid {0, 0.5, 1, 2, 3, 4}",
               "R = lower/upper with the IEEE cases of the implementation: upper == 0 gives -inf for lower < 0 and "
               "the documented fill value 0 for 0/0"]
OUTSIDE = ("np.histogram / np.histogram2d based clauses (range_histogram, histogram, recorder histograms); symbolic "
           "bin edges; collectives with more rows than the bound; extra index levels")
RULE = ("one evaluation = one explored path; collective cases: sign/order pattern of from/to per row; histogram "
        "cases: one (source binning, target binning) pair with symbolic counts; distinct = distinct case and path "
        "signature; non-trivial = every path")
LABELS = ["rebin.source_order_independent", "rebin.target_level_order_independent", "coll.upper_lower_amplitude", "coll.mean", "coll.R", "coll.cycles", "coll.range_mean_equiv",
          "coll.scale", "coll.shift", "rebin.total", "rebin.identity", "rebin.compose", "combine.total",
          "combine.per_bin"]
GRID = [0.0, 0.5, 1.0, 2.0, 3.0, 4.0]


def bounds(tier):
    return {"collective_rows": "1..%d" % (2 if tier == "quick" else 3),
            "binnings": "all gap-free binnings with 1..%d classes on the grid %s; integer binnings 1..3"
                        % (2 if tier == "quick" else 4, GRID)}


def _binnings(maxbins):
    out = []
    for k in range(2, maxbins + 2):
        for br in itertools.combinations(GRID, k):
            out.append(list(br))
    return out


def cases(tier):
    q = tier == "quick"
    out = []
    for m in range(1, (2 if q else 3) + 1):
        for cyc in (False, True):
            out.append({"kind": "fromto", "m": m, "cycles": cyc, "_weight": 9 ** m})
            out.append({"kind": "rangemean", "m": m, "cycles": cyc, "_weight": 9 ** m})
        out.append({"kind": "scale", "m": m, "_weight": 9 ** m * 3})
        out.append({"kind": "shift", "m": m, "_weight": 9 ** m})
    bs = _binnings(2 if q else 4)
    rng = np.random.default_rng(14)
    pairs = []
    for src in bs:
        for tgt in bs:
            if tgt[0] <= src[0] and tgt[-1] >= src[-1]:
                pairs.append((src, tgt))
    if q:
        pairs = [pairs[i] for i in sorted(rng.choice(len(pairs), size=min(150, len(pairs)), replace=False))]
    # group many pairs into one work item (each pair is a single path)
    step = 12
    for i in range(0, len(pairs), step):
        out.append({"kind": "rebin", "pairs": pairs[i:i + step], "_weight": 5})
    for src in bs[:: (3 if q else 1)]:
        out.append({"kind": "rebin_int", "src": src, "_weight": 1})
    # source classes listed in a permuted order (e.g. after sort_values / concat): result must not depend on it
    three = [b for b in bs if len(b) == 4] or [b for b in bs if len(b) == 3]
    for src in three[:: (4 if q else 1)]:
        m = len(src) - 1
        for perm in list(itertools.permutations(range(m)))[1:]:
            out.append({"kind": "rebin_perm", "src": src, "perm": list(perm), "_weight": 2})
    # two-dimensional histograms (MultiIndex), target levels given in either order
    two = [b for b in bs if len(b) == 3][:: (5 if q else 2)]
    for a in two[:3 if q else 6]:
        for b in two[:2 if q else 4]:
            for ta, tb in (([0.0, 2.0, 4.0], [0.0, 1.0, 4.0]), ([0.0, 0.5, 1.0, 4.0], [0.0, 4.0])):
                out.append({"kind": "rebin_2d", "a": a, "b": b, "ta": ta, "tb": tb, "_weight": 6})
    comp = []
    for a in bs:
        for b in bs:
            if set(a) <= set(b) and b[0] <= a[0] and b[-1] >= a[-1] and a != b:
                for c in bs:
                    if c[0] <= a[0] and c[-1] >= a[-1]:
                        comp.append((a, b, c))
    comp = [comp[i] for i in sorted(rng.choice(len(comp), size=min(60 if q else 600, len(comp)), replace=False))]
    for i in range(0, len(comp), step):
        out.append({"kind": "compose", "triples": comp[i:i + step], "_weight": 5})
    cmb = []
    for a in bs:
        for b in bs:
            cmb.append((a, b))
    cmb = [cmb[i] for i in sorted(rng.choice(len(cmb), size=min(40 if q else 300, len(cmb)), replace=False))]
    for i in range(0, len(cmb), step):
        out.append({"kind": "combine", "pairs": cmb[i:i + step], "_weight": 5})
    return out


def _apply_canary(ctx):
    cn = ctx.canary
    if cn == "overlap_normalised_by_target":
        ctx.patch(HI, "_do_rebin_histogram",
                  mutated(HI._do_rebin_histogram, "return overlap / test_interval.length", "return overlap / reference_interval.length"))
    elif cn == "amplitude_not_abs":
        ctx.patch(LC.LoadCollective, "amplitude",
                  property(mutated(LC.LoadCollective.amplitude.fget, "rng = np.abs(fr-to)", "rng = fr-to")))
    elif cn == "shift_also_cycles":
        ctx.patch(LC.LoadCollective, "shift",
                  mutated(LC.LoadCollective.shift, "obj[['from', 'to']] = obj[['from', 'to']].add(diffs, axis=0)",
                          "obj[['from', 'to']] = obj[['from', 'to']].add(diffs, axis=0)\n    if 'cycles' in obj: obj['cycles'] = obj['cycles'] + diffs"))
    elif cn == "combine_first_only":
        ctx.patch(HI, "combine_histogram",
                  mutated(HI.combine_histogram, "combined = concat.groupby(concat.index).agg(method)",
                          "combined = concat.groupby(concat.index).agg('first' if method == 'sum' else method)"))
    elif cn is not None:
        raise RuntimeError("unknown canary " + cn)


CANARIES = [
    {"name": "overlap_normalised_by_target", "cases": [{"kind": "rebin", "pairs": [([0.0, 1.0, 2.0], [0.0, 0.5, 4.0])]}]},
    {"name": "amplitude_not_abs", "cases": [{"kind": "fromto", "m": 1, "cycles": False}]},
    {"name": "shift_also_cycles", "cases": [{"kind": "shift", "m": 1}]},
    {"name": "combine_first_only", "cases": [{"kind": "combine", "pairs": [([0.0, 1.0, 2.0], [0.0, 1.0, 4.0])]}]},
]
QUICK_CANARIES = 4


def _col(ctx, vals):
    return np.array(vals, dtype=object if ctx.sym else np.float64)


def _oracle_R(lower, upper):
    """lower/upper with the implementation's IEEE cases"""
    if upper == 0:
        if lower < 0:
            return float("-inf")
        return 0.0
    return lower / upper


def _total(series):
    t = 0
    for v in list(series):
        t = v + t
    return t


TOL = 1e-12   # relative to the total count: overlap fractions such as fl(1/3) + fl(2/3) differ from 1 by 2**-54


def _close(a, b, scale):
    return abs(a - b) <= TOL * scale


def _all_close(xs, ys, scale):
    if len(xs) != len(ys):
        return False
    return sym_and(*[_close(a, b, scale) for a, b in zip(xs, ys)])


def _hist(ctx, breaks, prefix):
    n = len(breaks) - 1
    vals = [ctx.real("%s%d" % (prefix, i)) for i in range(n)]
    for v in vals:
        ctx.assume(v >= 0)      # counts
    return vals, pd.Series(_col(ctx, vals), index=pd.IntervalIndex.from_breaks(breaks), name="cycles")


def run(ctx, case):
    _apply_canary(ctx)
    kind = case["kind"]
    if kind in ("fromto", "rangemean", "scale", "shift"):
        return _run_collective(ctx, case)
    with warnings.catch_warnings():
        warnings.simplefilter("ignore")
        if kind == "rebin":
            outs = []
            for src, tgt in case["pairs"]:
                vals, h = _hist(ctx, src, "h")
                r = HI.rebin_histogram(h, pd.IntervalIndex.from_breaks(tgt))
                ctx.signature((kind, tuple(src), tuple(tgt)))
                ctx.claim(len(r) == len(tgt) - 1, "rebin.total")
                ctx.claim(_close(_total(r), _total(vals), _total(vals)), "rebin.total", (src, tgt, list(r)))
                if list(src) == list(tgt):
                    ctx.claim(eq_struct(list(r), vals), "rebin.identity", (src, list(r)))
                outs.append(list(r))
            # the same binning is always part of the family: make sure the identity clause is reached
            vals, h = _hist(ctx, case["pairs"][0][0], "h")
            r = HI.rebin_histogram(h, h.index)
            ctx.claim(eq_struct(list(r), vals), "rebin.identity", (list(r),))
            return outs
        if kind == "rebin_int":
            src = case["src"]
            outs = []
            for k in (1, 2, 3):
                vals, h = _hist(ctx, src, "h")
                r = HI.rebin_histogram(h, k)
                ctx.signature((kind, tuple(src), k))
                ctx.claim(len(r) == k, "rebin.total")
                ctx.claim(_close(_total(r), _total(vals), _total(vals)), "rebin.total", (src, k, list(r)))
                outs.append(list(r))
            return outs
        if kind == "rebin_perm":
            src, perm = case["src"], case["perm"]
            vals, h = _hist(ctx, src, "h")
            hp = h.iloc[perm]
            outs = []
            for k in (1, 2, len(vals), 5):
                ref = HI.rebin_histogram(h, k)
                r = HI.rebin_histogram(hp, k)
                ctx.signature((kind, tuple(src), tuple(perm), k))
                ctx.claim(_close(_total(r), _total(vals), _total(vals)), "rebin.total", (src, perm, k, list(r)))
                ok = list(r.index) == list(ref.index)
                ctx.claim(ok, "rebin.source_order_independent", (list(r.index), list(ref.index)))
                if ok:
                    ctx.claim(_all_close(list(r), list(ref), _total(vals)), "rebin.source_order_independent", (list(r), list(ref)))
                outs.append(list(r))
            tgt = pd.IntervalIndex.from_breaks([GRID[0], GRID[-1]])
            r = HI.rebin_histogram(hp, pd.IntervalIndex.from_breaks(src))
            ctx.claim(_all_close(list(r), vals, _total(vals)), "rebin.identity", ("permuted source to its sorted binning", list(r)))
            return outs
        if kind == "rebin_2d":
            a, b, ta, tb = case["a"], case["b"], case["ta"], case["tb"]
            ia, ib = pd.IntervalIndex.from_breaks(a), pd.IntervalIndex.from_breaks(b)
            idx = pd.MultiIndex.from_product([ia, ib], names=["range", "mean"])
            vals = [ctx.real("h%d" % i) for i in range(len(idx))]
            for v in vals:
                ctx.assume(v >= 0)
            h = pd.Series(_col(ctx, vals), index=idx, name="cycles")
            ita, itb = pd.IntervalIndex.from_breaks(ta), pd.IntervalIndex.from_breaks(tb)
            t_rm = pd.MultiIndex.from_product([ita, itb], names=["range", "mean"])
            t_mr = pd.MultiIndex.from_product([itb, ita], names=["mean", "range"])
            r1 = HI.rebin_histogram(h, t_rm)
            r2 = HI.rebin_histogram(h, t_mr)
            ctx.signature((kind, tuple(a), tuple(b), tuple(ta), tuple(tb)))
            tot = _total(vals)
            ctx.claim(_close(_total(r1), tot, tot), "rebin.total", ("2d", list(r1)))
            ctx.claim(_close(_total(r2), tot, tot), "rebin.total", ("2d, target levels in the other order", list(r2)))
            # per class: both ways of writing the target give the same result
            d1 = {(k[0], k[1]): v for k, v in zip(r1.index, list(r1))}
            names2 = list(r2.index.names)
            d2 = {}
            for k, v in zip(r2.index, list(r2)):
                kk = dict(zip(names2, k))
                d2[(kk["range"], kk["mean"])] = v
            ok = set(d1) == set(d2)
            ctx.claim(ok, "rebin.target_level_order_independent", (sorted(map(str, d1)), sorted(map(str, d2))))
            if ok:
                ctx.claim(sym_and(*[_close(d1[k], d2[k], tot) for k in d1]), "rebin.target_level_order_independent", (list(r1), list(r2)))
            # the histogram's own binning is the identity
            r3 = HI.rebin_histogram(h, idx)
            d3 = {k: v for k, v in zip(r3.index, list(r3))}
            ctx.claim(sym_and(*[_close(d3[k], v, tot) for k, v in zip(idx, vals)]) if set(d3) == set(idx) else False,
                      "rebin.identity", ("2d", list(r3)))
            return [list(r1), list(r2)]
        if kind == "compose":
            outs = []
            for a, b, c in case["triples"]:
                vals, h = _hist(ctx, a, "h")
                ib, ic = pd.IntervalIndex.from_breaks(b), pd.IntervalIndex.from_breaks(c)
                direct = HI.rebin_histogram(h, ic)
                via = HI.rebin_histogram(HI.rebin_histogram(h, ib), ic)
                ctx.signature((kind, tuple(a), tuple(b), tuple(c)))
                ctx.claim(_all_close(list(via), list(direct), _total(vals)), "rebin.compose", (a, b, c, list(via), list(direct)))
                outs.append(list(via))
            return outs
        if kind == "combine":
            outs = []
            for a, b in case["pairs"]:
                va, ha = _hist(ctx, a, "h")
                vb, hb = _hist(ctx, b, "g")
                r = HI.combine_histogram([ha, hb], method="sum")
                ctx.signature((kind, tuple(a), tuple(b)))
                ctx.claim(s_eq(_total(r), _total(va) + _total(vb)), "combine.total", (a, b, list(r)))
                # per class: every distinct interval carries the sum of the inputs' counts on that interval
                exp = {}
                for iv, v in list(zip(ha.index, va)) + list(zip(hb.index, vb)):
                    exp[iv] = exp[iv] + v if iv in exp else v
                ok = set(r.index) == set(exp) and len(r) == len(exp)
                ctx.claim(ok, "combine.per_bin", (list(r.index), list(exp)))
                if ok:
                    ctx.claim(sym_and(*[s_eq(r[iv], exp[iv]) for iv in exp]), "combine.per_bin", (a, b, list(r)))
                outs.append(list(r))
            return outs
    raise RuntimeError("unknown kind")


def _run_collective(ctx, case):
    kind, m = case["kind"], case["m"]
    fr = [ctx.real("f%d" % i) for i in range(m)]
    to = [ctx.real("t%d" % i) for i in range(m)]
    idx = pd.Index([10 * i + 3 for i in range(m)], name="cycle_number")
    if kind == "rangemean":
        # from/to given through the range/mean description: range r >= 0 (a range), mean mu
        rg = [ctx.real("r%d" % i) for i in range(m)]
        mu = [ctx.real("u%d" % i) for i in range(m)]
        for r in rg:
            ctx.assume(r >= 0)
        data = {"range": _col(ctx, rg), "mean": _col(ctx, mu)}
        cyc = None
        if case["cycles"]:
            cyc = [ctx.real("c%d" % i) for i in range(m)]
            data["cycles"] = _col(ctx, cyc)
        lc = pd.DataFrame(data, index=idx).load_collective
        fr_eq = pd.DataFrame({"from": _col(ctx, [u - r / 2 for r, u in zip(rg, mu)]),
                              "to": _col(ctx, [u + r / 2 for r, u in zip(rg, mu)])}, index=idx).load_collective
        ctx.signature((kind, m, case["cycles"]))
        obs = {}
        for name in ("amplitude", "meanstress", "upper", "lower"):
            a, b = list(getattr(lc, name)), list(getattr(fr_eq, name))
            ctx.claim(eq_struct(a, b), "coll.range_mean_equiv", (name, a, b))
            obs[name] = a
        ctx.claim(eq_struct(list(lc.amplitude), [r / 2 for r in rg]), "coll.range_mean_equiv")
        ctx.claim(eq_struct(list(lc.meanstress), mu), "coll.range_mean_equiv")
        ctx.claim(eq_struct(list(lc.cycles), cyc if cyc is not None else [1.0] * m), "coll.cycles")
        return obs

    data = {"from": _col(ctx, fr), "to": _col(ctx, to)}
    cyc = None
    if case.get("cycles") or kind in ("scale", "shift"):
        cyc = [ctx.real("c%d" % i) for i in range(m)]
        data["cycles"] = _col(ctx, cyc)
    df = pd.DataFrame(data, index=idx)
    lc = df.load_collective
    amp, mean, up, lo = list(lc.amplitude), list(lc.meanstress), list(lc.upper), list(lc.lower)
    ctx.signature((kind, m, case.get("cycles")))
    if kind == "fromto":
        R = list(lc.R)
        ctx.claim(sym_and(*[u - l == 2 * a for u, l, a in zip(up, lo, amp)]), "coll.upper_lower_amplitude", (up, lo, amp))
        ctx.claim(sym_and(*[a >= 0 for a in amp]), "coll.upper_lower_amplitude")
        ctx.claim(sym_and(*[sym_and(u == s_max(f, t), l == s_min(f, t)) for u, l, f, t in zip(up, lo, fr, to)]),
                  "coll.upper_lower_amplitude")
        ctx.claim(sym_and(*[(u + l) / 2 == mm for u, l, mm in zip(up, lo, mean)]), "coll.mean", (up, lo, mean))
        for r, l, u in zip(R, lo, up):
            exp = _oracle_R(l, u)
            ctx.claim(eq_struct(r, exp), "coll.R", (r, exp))
        ctx.claim(eq_struct(list(lc.cycles), cyc if cyc is not None else [1.0] * m), "coll.cycles")
        return {"amplitude": amp, "mean": mean, "upper": up, "lower": lo, "R": R}
    if kind == "scale":
        k = ctx.real("k")
        new = lc.scale(k)
        exp_from, exp_to = [k * f for f in fr], [k * t for t in to]
        label = "coll.scale"
        ctx.claim(eq_struct(list(new.amplitude), [abs(k) * a for a in amp]), label, "amplitude")
        ctx.claim(eq_struct(list(new.meanstress), [k * mm for mm in mean]), label, "mean")
    else:
        d = ctx.real("d")
        new = lc.shift(d)
        exp_from, exp_to = [f + d for f in fr], [t + d for t in to]
        label = "coll.shift"
        ctx.claim(eq_struct(list(new.amplitude), amp), label, "amplitude")
        ctx.claim(eq_struct(list(new.meanstress), [mm + d for mm in mean]), label, "mean")
    nd = new.to_pandas()
    ctx.claim(eq_struct(list(nd["from"]), exp_from), label, "from")
    ctx.claim(eq_struct(list(nd["to"]), exp_to), label, "to")
    ctx.claim(eq_struct(list(new.cycles), cyc), "coll.cycles", "cycles changed by scale/shift")
    return {"from": list(nd["from"]), "to": list(nd["to"]), "cycles": list(new.cycles)}
