"""C18  Woehler test-data analysis: the finite / infinite zone partition clause and the equivariance of the zone
transition (the elementary endurance estimate) -- the encodable clauses."""
import itertools

import numpy as np
import pandas as pd

import pylife.materialdata.woehler.fatigue_data as FD

from ..sym import sym_and, sym_or, sym_not, SymReal, is_sym
from ..util import eq_struct, mutated

PROPERTY = "C18"
ENCODED = ["pylife.materialdata.woehler.fatigue_data:FatigueData._validate",
           "pylife.materialdata.woehler.fatigue_data:FatigueData._calc_finite_infinite_transition",
           "pylife.materialdata.woehler.fatigue_data:FatigueData._half_level_above_highest_runout",
           "pylife.materialdata.woehler.fatigue_data:FatigueData._guess_from_second_highest_runout",
           "pylife.materialdata.woehler.fatigue_data:FatigueData._calc_finite_zone",
           "pylife.materialdata.woehler.fatigue_data:FatigueData._calc_finite_zone_manual",
           "pylife.materialdata.woehler.fatigue_data:FatigueData.max_runout_load"]
STUBS = ["pandas.Series.unique gets an object-dtype fall-back (pairwise equality instead of hashing) in the symbolic run"]
ASSUMPTIONS = ["loads > 0 and cycles > 0 symbolic for every test row; fracture flags concrete and enumerated",
               "admissible data: at least two distinct loads among the fractured tests and two distinct fracture cycle "
               "numbers (the property's quantifier; single-level data is rejected or fails in the code)"]
OUTSIDE = ("equivariance, exact recovery and likelihood ordering of the Elementary / Probit / MaxLike analyzers (least "
           "squares, scipy.optimize.fmin, norm.ppf on symbolic data have no encoding); more rows than the bound")
RULE = ("one evaluation = one explored path (order type of the loads incl. ties, per fracture pattern); distinct = distinct "
        "(rows, flags, zone membership); non-trivial = both zones non-empty")
LABELS = ["zones.partition", "zones.bracket_transition", "zones.permutation_invariant", "zones.scale_equivariant"]


def bounds(tier):
    return {"rows": "2..%d, every fracture-flag pattern with at least two fractures" % (3 if tier == "quick" else 5)}


def cases(tier):
    q = tier == "quick"
    out = []
    for m in range(2, (3 if q else 5) + 1):
        for flags in itertools.product((True, False), repeat=m):
            if sum(flags) < 2:
                continue
            c = {"m": m, "flags": list(flags), "_weight": 6 ** m}
            if m >= 4:
                c["_split"] = 5
            out.append(c)
            if m <= (3 if q else 4):
                c2 = dict(c, scale=True)
                out.append(c2)
    return out


def _apply_canary(ctx):
    cn = ctx.canary
    F = FD.FatigueData
    if cn == "finite_zone_includes_limit":
        ctx.patch(F, "_calc_finite_zone_manual", mutated(F._calc_finite_zone_manual, "self.fractures[self.fractures.load > limit]", "self.fractures[self.fractures.load >= limit]"))
    elif cn == "transition_from_min_runout":
        ctx.patch(F, "max_runout_load", property(mutated(F.max_runout_load.fget, "return self.runouts.load.max()", "return self.runouts.load.min()")))
    elif cn == "infinite_zone_runouts_only":
        ctx.patch(F, "_calc_finite_zone_manual", mutated(F._calc_finite_zone_manual, "self._infinite_zone = self._obj[self._obj.load <= limit]", "self._infinite_zone = self.runouts"))
    elif cn == "guess_with_constant_step":
        ctx.patch(F, "_guess_from_second_highest_runout", mutated(F._guess_from_second_highest_runout, "return max_loads[1] + (max_loads[1]-max_loads[0]) / 2.", "return max_loads[1] + 1."))
    elif cn is not None:
        raise RuntimeError("unknown canary " + cn)


CANARIES = [
    {"name": "finite_zone_includes_limit", "cases": [{"m": 3, "flags": [True, True, False]}]},
    {"name": "transition_from_min_runout", "cases": [{"m": 4, "flags": [True, True, False, False]}]},
    {"name": "infinite_zone_runouts_only", "cases": [{"m": 3, "flags": [True, True, False]}]},
    {"name": "guess_with_constant_step", "cases": [{"m": 3, "flags": [True, True, False], "scale": True}]},
]
QUICK_CANARIES = 4


def _unique_fallback(orig):
    def unique(self):
        if self.dtype == object and any(is_sym(v) for v in self.values):
            out = []
            for v in self.values:
                if not any(bool(v == u) for u in out):
                    out.append(v)
            return np.array(out, dtype=object)
        return orig(self)
    return unique


def _zones(ctx, loads, cycles, flags, order):
    dt = object if ctx.sym else np.float64
    df = pd.DataFrame({"load": np.array([loads[i] for i in order], dtype=dt), "cycles": np.array([cycles[i] for i in order], dtype=dt),
                       "fracture": [flags[i] for i in order]}, index=pd.Index([100 + i for i in order], name="test"))
    fd = df.fatigue_data
    fin = sorted(int(i) - 100 for i in fd.finite_zone.index)
    inf = sorted(int(i) - 100 for i in fd.infinite_zone.index)
    return fin, inf, fd.finite_infinite_transition


def run(ctx, case):
    _apply_canary(ctx)
    m, flags = case["m"], case["flags"]
    if ctx.sym:
        ctx.patch(pd.Series, "unique", _unique_fallback(pd.Series.unique))
    loads = [ctx.real("L%d" % i) for i in range(m)]
    cycles = [ctx.real("N%d" % i) for i in range(m)]
    for v in loads + cycles:
        ctx.assume(v > 0)
    ctx.hint(sym_and(*[v <= 16 for v in loads + cycles]))
    fr = [i for i in range(m) if flags[i]]
    ctx.assume(sym_or(*[loads[a] != loads[b] for a, b in itertools.combinations(fr, 2)]))
    ctx.assume(sym_or(*[cycles[a] != cycles[b] for a, b in itertools.combinations(fr, 2)]))
    fin, inf, trans = _zones(ctx, loads, cycles, flags, list(range(m)))
    ctx.signature((m, tuple(flags), tuple(fin), tuple(inf)), trivial=not (fin and inf))
    ctx.claim(sorted(fin + inf) == list(range(m)), "zones.partition", (fin, inf))
    has_runouts = not all(flags)
    if has_runouts:
        conj = [loads[i] <= trans for i in inf] + [trans <= loads[i] for i in fin]
        ctx.claim(sym_and(*conj), "zones.bracket_transition", (fin, inf, trans))
    else:
        ctx.claim(inf == [] and fin == list(range(m)), "zones.bracket_transition", "without run-outs every test is in the finite zone")
    # row order does not matter
    for perm in ([list(reversed(range(m)))] + ([list(range(1, m)) + [0]] if m > 2 else [])):
        fin2, inf2, trans2 = _zones(ctx, loads, cycles, flags, perm)
        ctx.claim(fin2 == fin and inf2 == inf, "zones.permutation_invariant", (perm, fin2, inf2))
        ctx.claim(ctx.close(trans2, trans), "zones.permutation_invariant", (perm, trans2, trans))
    # multiplying all loads by c > 0 multiplies the transition (the elementary endurance estimate SD) by c and keeps the
    # zones; multiplying all cycle numbers by c changes neither
    if case.get("scale"):
        c = ctx.real("c")
        ctx.assume(c > 0)
        ctx.hint(sym_and(c <= 4, c >= 0.25))
        fin3, inf3, trans3 = _zones(ctx, [c * v for v in loads], cycles, flags, list(range(m)))
        ctx.claim(fin3 == fin and inf3 == inf, "zones.scale_equivariant", ("loads scaled", fin3, inf3))
        ctx.claim(ctx.close(trans3, c * trans), "zones.scale_equivariant", ("loads scaled: transition", trans3, trans))
        fin4, inf4, trans4 = _zones(ctx, loads, [c * v for v in cycles], flags, list(range(m)))
        ctx.claim(fin4 == fin and inf4 == inf, "zones.scale_equivariant", ("cycles scaled", fin4, inf4))
        ctx.claim(ctx.close(trans4, trans), "zones.scale_equivariant", ("cycles scaled: transition", trans4, trans))
    return {"finite": fin, "infinite": inf, "transition": trans}
