"""Shared set-up for the rainflow harnesses (C01-C03): kernels, detectors, observations."""
import numpy as np

import pylife.stress.rainflow as RF
import pylife.stress.rainflow.threepoint as TP
import pylife.stress.rainflow.fourpoint as FP
import pylife.stress.rainflow.fkm as FKM
import pylife.stress.rainflow.general as GEN

from .. import pyx2py, extbuild

DETECTORS = {"threepoint": RF.ThreePointDetector, "fourpoint": RF.FourPointDetector, "fkm": RF.FKMDetector}

_translated = {}


def translated_kernels(mutation=None):
    """python translation of the working tree's extension.pyx (optionally with a text mutation)"""
    key = mutation
    if key not in _translated:
        with open(extbuild.PYX) as f:
            src = f.read()
        if mutation is not None:
            old, new = mutation
            if src.count(old) != 1:
                raise RuntimeError("canary is stale: %r occurs %d times in extension.pyx" % (old, src.count(old)))
            src = src.replace(old, new)
        py = pyx2py.translate(src)
        ns = {"fabs": abs, "_usub": pyx2py._usub, "np": np}
        exec(compile(py, "extension.pyx (translated)", "exec"), ns)
        _translated[key] = ns
    return _translated[key]


def prepare(tier):
    extbuild.build()
    translated_kernels()


def install_kernels(ctx, mutation=None):
    """symbolic run: translated kernels; concrete run: kernels compiled from the current .pyx.
    A kernel *mutation* (canary) is run through the translated text in both modes."""
    if ctx.sym:
        # numpy functions without an object loop (only reached if the code under test starts using them)
        from .. import npfacade
        ctx.patch(GEN, "np", npfacade.FACADE)
    if ctx.sym or mutation is not None:
        ns = translated_kernels(mutation)
        if ctx.sym:
            ctx.patch(TP, "threepoint_loop", ns["threepoint_loop"])
            ctx.patch(FP, "fourpoint_loop", ns["fourpoint_loop"])
        else:
            # mutated text on floats: wrap to hand float arrays through the python translation
            ctx.patch(TP, "threepoint_loop", _floatify(ns["threepoint_loop"]))
            ctx.patch(FP, "fourpoint_loop", _floatify(ns["fourpoint_loop"]))
    else:
        ext = extbuild.load()
        ctx.patch(TP, "threepoint_loop", ext.threepoint_loop)
        ctx.patch(FP, "fourpoint_loop", ext.fourpoint_loop)


def _floatify(f):
    def g(turns, turns_index, *rest):
        r = f(np.asarray(turns, dtype=object), turns_index, *rest)
        return (np.asarray(r[0], dtype=np.float64), np.asarray(r[1], dtype=np.float64)) + tuple(r[2:])
    return g


def make(name):
    D = DETECTORS[name]
    rec = RF.FullRecorder()
    return D(recorder=rec)


def observe(d):
    """everything the public API exposes after a run"""
    r = d.recorder
    o = {"values_from": list(r.values_from), "values_to": list(r.values_to),
         "residuals": list(d.residuals)}
    o["index_from"] = [int(i) for i in r.index_from]
    o["index_to"] = [int(i) for i in r.index_to]
    o["residual_index"] = [int(i) for i in d.residual_index]
    return o


def full_state(d):
    """all attributes of detector and recorder except the recorder's chunk list"""
    st = {}
    for owner, tag in ((d, "det"), (d.recorder, "rec")):
        for k, v in vars(owner).items():
            if k in ("_recorder", "_chunks"):
                continue
            if isinstance(v, np.ndarray):
                v = list(v)
            st[tag + "." + k] = v
    return st


def signal(ctx, n, kind="real"):
    mk = ctx.real if kind == "real" else ctx.int
    xs = [mk("x%d" % i) for i in range(n)]
    if ctx.sym:
        return xs, np.array(xs, dtype=object)
    return xs, np.array(xs, dtype=np.float64)
