"""C17  Equivalent stresses match their eigenvalue definitions (eigvalsh by contract) and mises is invariant."""
import types

import numpy as np
import pandas as pd
import z3

import pylife.stress.equistress as EQ

from ..sym import sym_and, sym_or, sym_not, SymReal, s_ite, s_max, s_min, lift
from ..util import eq_struct, mutated
from .. import npfacade

PROPERTY = "C17"
ENCODED = ["pylife.stress.equistress:" + f for f in (
    "eigenval", "_sign_trace", "_sign_abs_max_principal", "tresca", "signed_tresca_trace", "signed_tresca_abs_max_principal",
    "abs_max_principal", "max_principal", "min_principal", "mises", "signed_mises_trace", "signed_mises_abs_max_principal",
    "StressTensorEquistress.mises", "StressTensorEquistress.tresca", "StressTensorEquistress.abs_max_principal")]
STUBS = ["numpy.linalg.eigvalsh is replaced by its contract: fresh l1 <= l2 <= l3 with l1+l2+l3 = trace, "
         "l1*l2+l1*l3+l2*l3 = second invariant, l1*l2*l3 = determinant (Vieta) where the clause relates eigenvalues to "
         "components (mises definition); clauses that only read the eigenvalues use a free ordered triple "
         "(over-approximation); the Mises/Tresca bounds use the proven mises definition as a lemma; concrete replays use "
         "the real eigvalsh",
         "np facade in pylife.stress.equistress: zeros() gives an object array, fabs element-wise on objects"]
ASSUMPTIONS = ["floats are modelled as reals; sqrt is exact (r >= 0 and r*r = x)",
               "the eigenvalue routine meets its contract (LAPACK itself is not the subject)"]
OUTSIDE = ("rotation invariance and scaling of the eigenvalue-based quantities (would be inherited from the stub, not from "
           "the code); LAPACK; tensors given as arrays with more than 2 rows")
RULE = "one evaluation = one explored path (sign pattern of trace / extreme eigenvalues incl. zero); distinct = distinct clause and path"
LABELS = ["tresca", "max_min_principal", "abs_max_principal", "signed_variants", "mises_definition",
          "mises<=tresca<=2/sqrt3*mises", "mises_scaling", "mises_rotation", "accessor_rows"]
RTOL = 1e-9
ATOL = 1e-9
COMP = ("s11", "s22", "s33", "s12", "s13", "s23")


def bounds(tier):
    return {"rows": "1 (definitions), 2 (accessor)", "rotations": "about each coordinate axis with symbolic (c, s), c^2+s^2=1"}


def options(tier):
    return {"timeout_ms": 10000 if tier == "quick" else 60000, "task_budget_s": 300 if tier == "quick" else 3600, "grace_s": 60}


def prepare(tier):
    npfacade.selftest()


def cases(tier):
    out = [{"kind": k} for k in ("eigen_tresca", "eigen_max", "eigen_min", "eigen_absmax", "eigen_signed_tresca_trace",
                                 "eigen_signed_tresca_absmax", "signed_mises", "mises", "bounds", "scaling", "accessor")]
    out += [{"kind": "rotation", "axis": a} for a in (0, 1, 2)]
    out += [{"kind": k, "s11": "int"} for k in ("eigen_tresca", "eigen_max")]
    return out


def _apply_canary(ctx):
    cn = ctx.canary
    if cn == "tresca_misses_pair":
        ctx.patch(EQ, "tresca", mutated(EQ.tresca, "w_diff[1] = np.fabs(w[0] - w[2])", "w_diff[1] = np.fabs(w[0] - w[1])"))
    elif cn == "mises_shear_factor":
        ctx.patch(EQ, "mises", mutated(EQ.mises, "+ 3 * (s12 ** 2", "+ 2 * (s12 ** 2"))
    elif cn == "sign_zero_indicator":
        ctx.patch(EQ, "_sign_abs_max_principal", mutated(EQ._sign_abs_max_principal, "sgn = sgn + zero_sign_bool", "sgn = sgn - zero_sign_bool"))
    elif cn == "abs_max_takes_max":
        ctx.patch(EQ, "abs_max_principal", mutated(EQ.abs_max_principal, "positive_sign_bool = np.array(sign >= 0)", "positive_sign_bool = np.array(sign >= -1)"))
    elif cn is not None:
        raise RuntimeError("unknown canary " + cn)


CANARIES = [
    {"name": "tresca_misses_pair", "cases": [{"kind": "eigen_tresca"}]},
    {"name": "mises_shear_factor", "cases": [{"kind": "rotation", "axis": 2}]},
    {"name": "sign_zero_indicator", "cases": [{"kind": "eigen_signed_tresca_absmax"}]},
    {"name": "abs_max_takes_max", "cases": [{"kind": "eigen_absmax"}]},
]
QUICK_CANARIES = 4


class _Linalg:
    def __init__(self, ctx, vieta):
        self.ctx = ctx
        self.vieta = vieta
        self.last = []
        self.cache = {}

    def eigvalsh(self, a):
        a = np.asarray(a, dtype=object)
        mats = [a] if a.ndim == 2 else list(a)
        rows = []
        for m in mats:
            eng = self.ctx.eng
            s11, s22, s33 = m[0][0], m[1][1], m[2][2]
            s12, s13, s23 = m[0][1], m[0][2], m[1][2]
            # eigvalsh is a function: the same matrix gives the same spectrum symbols within a run
            key = tuple(repr(x) for x in (s11, s22, s33, s12, s13, s23))
            if key in self.cache:
                rows.append(list(self.cache[key]))
                self.last.append(self.cache[key])
                continue
            l1, l2, l3 = (SymReal(eng.fresh_real("lam")) for _ in range(3))
            self.cache[key] = (l1, l2, l3)
            tr = s11 + s22 + s33
            i2 = s11 * s22 + s11 * s33 + s22 * s33 - s12 * s12 - s13 * s13 - s23 * s23
            det = (s11 * (s22 * s33 - s23 * s23) - s12 * (s12 * s33 - s23 * s13) + s13 * (s12 * s23 - s22 * s13))
            if self.vieta:
                self.ctx.define(sym_and(l1 <= l2, l2 <= l3, l1 + l2 + l3 == tr,
                                        l1 * l2 + l1 * l3 + l2 * l3 == i2, l1 * l2 * l3 == det))
            else:
                # free ordered spectrum: every ordered triple is the spectrum of some symmetric tensor, so a
                # claim shown for all triples holds for all spectra (over-approximation; used for the clauses
                # that only read the eigenvalues)
                self.ctx.define(sym_and(l1 <= l2, l2 <= l3))
                # counterexample values are chosen consistent with the tensor if possible: the diagonal tensor
                # diag(l1, l2, l3) realises the triple (a linear hint)
                self.ctx.hint(sym_and(s11 == l1, s22 == l2, s33 == l3, s12 == 0, s13 == 0, s23 == 0))
            rows.append([l1, l2, l3])
            self.last.append((l1, l2, l3))
        out = np.array(rows, dtype=object)
        return out[0] if a.ndim == 2 else out


class _Facade(npfacade.NPFacade):
    def __init__(self, ctx, vieta):
        super().__init__()
        self.linalg = _Linalg(ctx, vieta)

    def zeros(self, shape, dtype=None, **kw):
        if dtype is None:
            z = np.empty(shape, dtype=object)
            z[...] = 0.0
            return z
        return np.zeros(shape, dtype=dtype, **kw)


def _tensor(ctx, tag=""):
    return [ctx.real(c + tag) for c in COMP]


def _s(x):
    if isinstance(x, np.ndarray) and x.ndim == 0:
        return x.item()
    if isinstance(x, np.ndarray) and x.size == 1:
        return x.reshape(-1)[0]
    return x


def _eig(ctx, fac, t):
    """eigenvalues the code under test sees for tensor t (stub values in the symbolic run, real ones otherwise)"""
    if ctx.sym:
        w = fac.linalg.eigvalsh(np.array([[t[0], t[3], t[4]], [t[3], t[1], t[5]], [t[4], t[5], t[2]]], dtype=object))
        return list(w)
    return list(np.linalg.eigvalsh(np.array([[t[0], t[3], t[4]], [t[3], t[1], t[5]], [t[4], t[5], t[2]]], dtype=float)))


def run(ctx, case):
    _apply_canary(ctx)
    fac = None
    if ctx.sym:
        fac = _Facade(ctx, vieta=(case["kind"] == "mises"))
        ctx.patch(EQ, "np", fac)
    kind = case["kind"]
    t = _tensor(ctx)
    ctx.hint(sym_and(*[sym_and(x <= 4, x >= -4) for x in t]))
    if case.get("s11") == "int":
        # first component integer-typed (a whole number given as int), the others floats with fractional parts: dtype
        # effects are invisible to the object-dtype run and show in the concrete replay of the path witness
        t[0] = ctx.int("s11i")
        ctx.hint(sym_and(t[3] == 0.5, t[1] == -1.5, t[0] <= 4, t[0] >= -4))
        if not ctx.sym:
            t[0] = int(round(t[0]))
    close = ctx.close

    if kind.startswith("eigen_"):
        # One function per case (each call of the code under test draws a fresh spectrum from the stub and
        # forks on its sign pattern).  No square root here: the path condition stays linear.
        def lam_of_last():
            if ctx.sym and not fac.linalg.last:
                return tuple(_eig(ctx, fac, t))       # the code under test did not ask for the spectrum: ask the stub for it
            return fac.linalg.last[-1] if ctx.sym else tuple(_eig(ctx, fac, t))

        def same_spectrum():
            # however often a function calls eigvalsh, the stub returns the same symbols for the same matrix
            return lam_of_last()
        trace = t[0] + t[1] + t[2]
        which = kind[len("eigen_"):]
        if which == "tresca":
            r = _s(EQ.tresca(*t))
            l1, l2, l3 = lam_of_last()
            ctx.claim(close(r, l3 - l1), "tresca", (r,))
        elif which == "max":
            r = _s(EQ.max_principal(*t))
            l1, l2, l3 = lam_of_last()
            ctx.claim(close(r, l3), "max_min_principal", (r,))
        elif which == "min":
            r = _s(EQ.min_principal(*t))
            l1, l2, l3 = lam_of_last()
            ctx.claim(close(r, l1), "max_min_principal", (r,))
        elif which == "absmax":
            r = _s(EQ.abs_max_principal(*t))
            l1, l2, l3 = same_spectrum()
            big = s_max(abs(l1), abs(l3))
            ctx.claim(sym_and(sym_or(close(r, l1), close(r, l3)), close(abs(r), big)), "abs_max_principal", (r,))
        elif which == "signed_tresca_trace":
            sgn_tr = s_ite(trace < 0, -1.0, 1.0)
            r = _s(EQ.signed_tresca_trace(*t))
            l1, l2, l3 = lam_of_last()
            ctx.claim(close(r, sgn_tr * (l3 - l1)), "signed_variants", (which, r))
        elif which == "signed_tresca_absmax":
            r = _s(EQ.signed_tresca_abs_max_principal(*t))
            l1, l2, l3 = same_spectrum()
            sgn_am = s_ite(l3 + l1 < 0, -1.0, 1.0)
            ctx.claim(close(r, sgn_am * (l3 - l1)), "signed_variants", (which, r))
        else:
            raise RuntimeError("unknown function " + which)
        ctx.signature((kind, bool(trace < 0), bool(trace == 0), bool(l1 + l3 < 0), bool(l1 + l3 == 0)))
        if case.get("s11") == "int":
            return {"kind": kind}       # stub-independent observation: lets the path witness be replayed on the real code
        return None if ctx.sym else {"value": r}

    if kind == "signed_mises":
        trace = t[0] + t[1] + t[2]
        sgn_tr = s_ite(trace < 0, -1.0, 1.0)
        mi = _s(EQ.mises(*t))
        smt = _s(EQ.signed_mises_trace(*t))
        ctx.claim(close(smt, sgn_tr * mi), "signed_variants", ("signed_mises_trace", smt))
        sma = _s(EQ.signed_mises_abs_max_principal(*t))
        l1, l2, l3 = fac.linalg.last[-1] if ctx.sym else tuple(_eig(ctx, fac, t))
        sgn_am = s_ite(l3 + l1 < 0, -1.0, 1.0)
        ctx.claim(close(sma, sgn_am * mi), "signed_variants", ("signed_mises_abs_max_principal", sma))
        ctx.signature((kind, bool(trace < 0), bool(trace == 0)))
        return None if ctx.sym else {"mises": mi, "smt": smt, "sma": sma}

    if kind == "mises":
        mi = _s(EQ.mises(*t))
        l1, l2, l3 = _eig(ctx, fac, t)
        q = ((l1 - l2) * (l1 - l2) + (l1 - l3) * (l1 - l3) + (l2 - l3) * (l2 - l3)) / 2
        ctx.claim(sym_and(mi >= 0, close(mi * mi, q)), "mises_definition", (mi, q))
        ctx.signature((kind,))
        return {"mises": mi}

    if kind == "bounds":
        mi = _s(EQ.mises(*t))
        tr = _s(EQ.tresca(*t))
        if ctx.sym:
            # lemma (claim 'mises_definition', decided in the case kind 'mises' under the Vieta contract):
            # mises**2 = ((l1-l2)**2 + (l1-l3)**2 + (l2-l3)**2)/2 for the spectrum of the same tensor
            l1, l2, l3 = fac.linalg.last[-1]
            ctx.assume(mi * mi == ((l1 - l2) * (l1 - l2) + (l1 - l3) * (l1 - l3) + (l2 - l3) * (l2 - l3)) / 2)
            k = SymReal(ctx.eng.fresh_real("two_over_sqrt3"))
            ctx.define(sym_and(k > 0, k * k * 3 == 4))
        else:
            k = 2 / np.sqrt(3.0)
        tol = 1e-9
        ctx.claim(sym_and(mi <= tr * (1 + tol) + tol, tr <= k * mi * (1 + tol) + tol), "mises<=tresca<=2/sqrt3*mises", (mi, tr))
        ctx.signature((kind,))
        return None if ctx.sym else {"mises": mi, "tresca": tr}

    if kind == "scaling":
        c = ctx.real("c")
        ctx.assume(c > 0)
        ctx.hint(sym_and(c <= 4, c >= 0.25))
        mi = _s(EQ.mises(*t))
        mi2 = _s(EQ.mises(*[c * x for x in t]))
        ctx.claim(close(mi2, c * mi), "mises_scaling", (mi, mi2))
        ctx.signature((kind,))
        return {"mises": mi, "scaled": mi2}

    if kind == "rotation":
        axis = case["axis"]
        co, si = ctx.real("cos"), ctx.real("sin")
        ctx.assume(co * co + si * si == 1 if ctx.sym else abs(co * co + si * si - 1) < 1e-9)
        ctx.hint(sym_or(sym_and(co == 0.6, si == 0.8), sym_and(co == 0, si == 1), sym_and(co == -0.8, si == 0.6)))
        S = [[t[0], t[3], t[4]], [t[3], t[1], t[5]], [t[4], t[5], t[2]]]
        i, j = [(1, 2), (2, 0), (0, 1)][axis]
        R = [[1.0 if a == b else 0.0 for b in range(3)] for a in range(3)]
        R[i][i], R[i][j], R[j][i], R[j][j] = co, -si, si, co

        def mm(A, B):
            return [[A[a][0] * B[0][b] + A[a][1] * B[1][b] + A[a][2] * B[2][b] for b in range(3)] for a in range(3)]
        Rt = [[R[b][a] for b in range(3)] for a in range(3)]
        T = mm(mm(R, S), Rt)
        t2 = [T[0][0], T[1][1], T[2][2], T[0][1], T[0][2], T[1][2]]
        mi = _s(EQ.mises(*t))
        mi2 = _s(EQ.mises(*t2))
        ctx.claim(close(mi2, mi), "mises_rotation", (mi, mi2))
        ctx.signature((kind, axis))
        return {"mises": mi, "rotated": mi2}

    if kind == "accessor":
        u = _tensor(ctx, "b")
        df = pd.DataFrame({c.upper(): np.array([a, b], dtype=object if ctx.sym else np.float64)
                           for c, a, b in zip(COMP, t, u)})
        acc = df.equistress
        got = list(acc.mises())
        ctx.claim(close(got, [_s(EQ.mises(*t)), _s(EQ.mises(*u))]), "accessor_rows", ("mises", got))
        if ctx.sym:
            n0 = len(fac.linalg.last)
        gt = list(acc.tresca())
        if ctx.sym:
            (a1, a2, a3), (b1, b2, b3) = fac.linalg.last[n0], fac.linalg.last[n0 + 1]
            exp = [a3 - a1, b3 - b1]
        else:
            exp = [_s(EQ.tresca(*t)), _s(EQ.tresca(*u))]
        ctx.claim(close(gt, exp), "accessor_rows", ("tresca", gt))
        ctx.signature((kind,))
        return None if ctx.sym else {"mises": got}
    raise RuntimeError("unknown kind")
