"""C01  Rainflow counting is independent of how the signal is chunked.

Inductive two-way split lemma with complete-state equality (see DESIGN.md section 6, C01), the
recorder's chunk bookkeeping, and (guard on the induction) direct enumeration of all partitions.
"""
import itertools

import numpy as np

import pylife.stress.rainflow as RF
import pylife.stress.rainflow.general as GEN
import pylife.stress.rainflow.threepoint as TP
import pylife.stress.rainflow.fourpoint as FP

from ..sym import sym_and
from ..util import eq_struct, mutated
from . import rf_common as C

PROPERTY = "C01"
ENCODED = ["file:src/pylife/stress/rainflow/extension.pyx",
           "pylife.stress.rainflow.general:find_turns",
           "pylife.stress.rainflow.general:AbstractDetector._new_turns",
           "pylife.stress.rainflow.general:AbstractDetector._flush_new_turns",
           "pylife.stress.rainflow.general:AbstractDetector.residual_index",
           "pylife.stress.rainflow.general:AbstractRecorder.report_chunk",
           "pylife.stress.rainflow.general:AbstractRecorder.chunk_local_index",
           "pylife.stress.rainflow.threepoint:ThreePointDetector.process",
           "pylife.stress.rainflow.fourpoint:FourPointDetector.process",
           "pylife.stress.rainflow.fkm:FKMDetector.process",
           "pylife.stress.rainflow.recorders:LoopValueRecorder.record_values",
           "pylife.stress.rainflow.recorders:FullRecorder.record_index"]
STUBS = ["extension.pyx kernels run as a mechanical Python translation of the current .pyx text in the symbolic run; "
         "concrete replays use a module compiled from the same text"]
ASSUMPTIONS = ["floats are modelled as reals (rounding outside the claim)",
               "signal samples are finite reals (NaN handling is C03)",
               "numpy object-dtype loops call the elements' Python operators (validated by per-path witness replay "
               "against the compiled kernels and float64 arrays)"]
OUTSIDE = "signals longer than the bound; float rounding; non-float inputs"
RULE = ("one evaluation = one explored path = one order type of the signal samples (incl. ties) under which all "
        "runs have constant control flow; distinct = distinct (detector, length, flush, reported index pattern); "
        "non-trivial = at least one closed cycle or a plateau/monotone sample dropped")
LABELS = ["split.outputs", "split.state", "chunks.lengths", "chunks.local_index", "chunks.local_value"]


def bounds(tier):
    n = 6 if tier == "quick" else 8
    return {"signal_length_max": n, "detectors": list(C.DETECTORS), "splits": "every two-way split of every prefix "
            "length (inductive lemma with full state equality), flush on and off",
            "direct_partitions": "all 2^(m-1) partitions for m <= %d" % (4 if tier == "quick" else 6)}


def options(tier):
    return {"timeout_ms": 10000 if tier == "quick" else 60000}


prepare = C.prepare


def cases(tier):
    n = 6 if tier == "quick" else 8
    out = []
    for det in C.DETECTORS:
        for m in range(1, n + 1):
            for flush in (False, True):
                c = {"mode": "lemma", "det": det, "m": m, "flush": flush, "_weight": 5 ** m}
                if m >= 6:
                    c["_split"] = 2 * m - 6
                out.append(c)
        for m in range(3, (4 if tier == "quick" else 6) + 1):
            out.append({"mode": "partitions", "det": det, "m": m, "flush": False, "_weight": 5 ** m * 2})
    return out


def _apply_canary(ctx):
    cn = ctx.canary
    kernel_mut = None
    if cn == "new_turns_index_offset":
        ctx.patch(GEN.AbstractDetector, "_new_turns",
                  mutated(GEN.AbstractDetector._new_turns, "turn_index += self._head_index - len(self._sample_tail)",
                          "turn_index += self._head_index"))
    elif cn == "chunk_local_index_side":
        ctx.patch(GEN.AbstractRecorder, "chunk_local_index",
                  mutated(GEN.AbstractRecorder.chunk_local_index, "side='right'", "side='left'"))
    elif cn == "threepoint_keeps_stale_last":
        ctx.patch(TP.ThreePointDetector, "process",
                  mutated(TP.ThreePointDetector.process, "residuals = self._residuals[:-1]", "residuals = self._residuals"))
    elif cn == "tail_lost":
        ctx.patch(GEN.AbstractDetector, "_new_turns",
                  mutated(GEN.AbstractDetector._new_turns, "samples_with_last_tail[sample_tail_index:]",
                          "samples_with_last_tail[sample_tail_index+1:]"))
    elif cn == "fkm_ir_not_stored":
        import pylife.stress.rainflow.fkm as FKM
        ctx.patch(FKM.FKMDetector, "process",
                  mutated(FKM.FKMDetector.process, "            self._ir = ir\n", "            pass\n"))
    elif cn is not None:
        raise RuntimeError("unknown canary " + cn)
    return kernel_mut


CANARIES = [
    {"name": "new_turns_index_offset", "cases": [{"mode": "lemma", "det": "fourpoint", "m": 4, "flush": False}]},
    {"name": "chunk_local_index_side", "cases": [{"mode": "lemma", "det": "threepoint", "m": 4, "flush": False}]},
    {"name": "threepoint_keeps_stale_last", "cases": [{"mode": "lemma", "det": "threepoint", "m": 4, "flush": False}]},
    {"name": "tail_lost", "cases": [{"mode": "lemma", "det": "fkm", "m": 4, "flush": False}]},
    {"name": "fkm_ir_not_stored", "cases": [{"mode": "lemma", "det": "fkm", "m": 5, "flush": False}]},
]
QUICK_CANARIES = 3


def _check_chunks(ctx, d, chunks):
    """recorder.chunks and chunk_local_index for every reported index"""
    rec = d.recorder
    if not isinstance(d, RF.FKMDetector):
        ctx.claim(list(map(int, rec.chunks)) == [len(c) for c in chunks], "chunks.lengths")
    else:
        return
    o = C.observe(d)
    starts = np.concatenate(([0], np.cumsum([len(c) for c in chunks])))
    for idx_key, val_key in (("index_from", "values_from"), ("index_to", "values_to"), ("residual_index", "residuals")):
        idx = np.asarray(o[idx_key], dtype=np.int64)
        if len(idx) == 0:
            continue
        cnum, loc = rec.chunk_local_index(idx)
        ok = True
        conj = []
        for g, c, l, v in zip(idx, np.atleast_1d(cnum), np.atleast_1d(loc), o[val_key]):
            c, l = int(c), int(l)
            if not (0 <= c < len(chunks) and 0 <= l < len(chunks[c]) and int(starts[c]) + l == int(g)):
                ok = False
                break
            conj.append(chunks[c][l] == v)
        ctx.claim(ok, "chunks.local_index", (idx_key, list(idx), list(np.atleast_1d(cnum)), list(np.atleast_1d(loc))))
        if ok:
            ctx.claim(sym_and(*conj), "chunks.local_value", idx_key)


def run(ctx, case):
    _apply_canary(ctx)
    C.install_kernels(ctx)
    m, det, flush = case["m"], case["det"], case["flush"]
    xs, arr = C.signal(ctx, m)

    whole = C.make(det)
    whole.process(arr, flush=flush) if flush else whole.process(arr)
    o_whole = C.observe(whole)
    s_whole = C.full_state(whole)
    _check_chunks(ctx, whole, [arr])
    ncyc = len(o_whole["values_from"])
    ctx.signature((det, m, flush, o_whole["index_from"], o_whole["index_to"], o_whole["residual_index"]),
                  trivial=(ncyc == 0 and len(o_whole["residuals"]) >= m))

    if case["mode"] == "lemma":
        parts = [[i] for i in range(1, m)]
    else:
        parts = []
        for k in range(2, m):       # three and more chunks (two chunks are the lemma)
            for cut in itertools.combinations(range(1, m), k):
                parts.append(list(cut))
    for cut in parts:
        bounds_ = [0] + cut + [m]
        chunks = [arr[a:b] for a, b in zip(bounds_[:-1], bounds_[1:])]
        d = C.make(det)
        for j, ch in enumerate(chunks):
            last = (j == len(chunks) - 1)
            if last and flush:
                d.process(ch, flush=True)
            else:
                d.process(ch)
            if not last:
                # streaming use: the bookkeeping is queried after every chunk, not only at the end
                _check_chunks(ctx, d, chunks[:j + 1])
        o = C.observe(d)
        ctx.claim(eq_struct(o, o_whole), "split.outputs", (cut, o, o_whole))
        ctx.claim(eq_struct(C.full_state(d), s_whole), "split.state", cut)
        _check_chunks(ctx, d, chunks)
    return o_whole
