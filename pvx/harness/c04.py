"""C04  Second HCM pass counts exactly the steady-state hystereses of the sequence."""
import itertools
import warnings

import numpy as np
import pandas as pd

import pylife.stress.rainflow.fkm_nonlinear as FN
from pylife.stress.rainflow.fkm_nonlinear import FKMNonlinearDetector
from pylife.stress.rainflow.recorders import FKMNonlinearRecorder

from ..sym import sym_and, sym_or, sym_not, s_eq, s_min, s_max
from ..util import eq_struct, mutated
from ..oracles import rainflow as O
from .c02 import multiset_eq

PROPERTY = "C04"
ENCODED = ["pylife.stress.rainflow.fkm_nonlinear:FKMNonlinearDetector.process_hcm_first",
           "pylife.stress.rainflow.fkm_nonlinear:FKMNonlinearDetector.process_hcm_second",
           "pylife.stress.rainflow.fkm_nonlinear:FKMNonlinearDetector.process",
           "pylife.stress.rainflow.fkm_nonlinear:FKMNonlinearDetector._adjust_samples_and_flush_for_hcm_first_run",
           "pylife.stress.rainflow.fkm_nonlinear:FKMNonlinearDetector._perform_hcm_algorithm",
           "pylife.stress.rainflow.fkm_nonlinear:FKMNonlinearDetector._hcm_process_sample",
           "pylife.stress.rainflow.fkm_nonlinear:FKMNonlinearDetector._handle_case_c_ii",
           "pylife.stress.rainflow.fkm_nonlinear:FKMNonlinearDetector._handle_case_a_i",
           "pylife.stress.rainflow.general:AbstractDetector._new_turns",
           "pylife.stress.rainflow.general:AbstractDetector._flush_new_turns",
           "pylife.stress.rainflow.general:find_turns",
           "pylife.stress.rainflow.recorders:FKMNonlinearRecorder.record_values_fkm_nonlinear",
           "pylife.stress.rainflow.recorders:FKMNonlinearRecorder.collective"]
STUBS = ["notch approximation law = linear law sigma = L, epsilon = L (the HCM counting decisions depend on loads only; "
         "the stress-strain bookkeeping is C05's subject)"]
ASSUMPTIONS = ["load samples are integers (the code compares with +-1e-12 tolerances, which never change a comparison of "
               "integers; float arithmetic on them is exact, ties are still covered)",
               "at least two distinct sample values",
               "oracle: rainflow cycles of the periodic reversal sequence started at its largest absolute load "
               "(pvx/harness/c04.py periodic_cycles)"]
OUTSIDE = "sequences longer than the bound; non-integer loads within 1e-12 of each other"
RULE = ("one evaluation = one explored path (order type of the integer samples incl. ties, zero crossings and the junction "
        "configuration); distinct = distinct (length, flags and run pattern of the recorded hystereses); non-trivial = at "
        "least one hysteresis in the second pass")
LABELS = ["second_pass_cycles", "second_pass_all_closed", "half_hystereses_first_pass_symmetric", "refinement_invariant"]


def bounds(tier):
    return {"sequence_length": "2..%d" % (5 if tier == "quick" else 6),
            "refinement": "one inserted non-reversal sample at every position incl. the end, base length 2..%d"
                          % (3 if tier == "quick" else 4)}


def options(tier):
    return {"timeout_ms": 10000 if tier == "quick" else 60000}


def cases(tier):
    q = tier == "quick"
    out = []
    for n in range(2, (5 if q else 6) + 1):
        c = {"kind": "count", "n": n, "_weight": 8 ** n}
        if n >= 4:
            c["_split"] = 2 * n
        out.append(c)
    for n in ((3, 4) if q else (3, 4, 5)):
        c = {"kind": "count", "n": n, "dtype": "int8", "_weight": 8 ** n}
        if n >= 4:
            c["_split"] = 2 * n
        out.append(c)
    for n in range(2, (3 if q else 4) + 1):
        for p in range(1, n + 1):
            c = {"kind": "refine", "n": n, "pos": p, "_weight": 8 ** (n + 1)}
            if n >= 3:
                c["_split"] = 2 * n
            out.append(c)
    return out


class LinearLaw:
    ramberg_osgood_relation = None

    def stress(self, load, **kw):
        return load * 1

    def strain(self, stress, load):
        return load * 1

    def stress_secondary_branch(self, delta_load, **kw):
        return delta_load * 1

    def strain_secondary_branch(self, delta_stress, delta_load):
        return delta_load * 1


def _apply_canary(ctx):
    cn = ctx.canary
    D = FKMNonlinearDetector
    if cn == "second_pass_not_flushed":
        ctx.patch(D, "process_hcm_second", mutated(D.process_hcm_second, "return self.process(samples, flush=True)", "return self.process(samples, flush=False)"))
    elif cn == "closing_rule_strict":
        ctx.patch(D, "_hcm_process_sample", mutated(D._hcm_process_sample, "if current_load_extent < previous_load_extent-1e-12:", "if current_load_extent <= previous_load_extent+1e-12:"))
    elif cn == "ir_not_raised":
        ctx.patch(D, "_hcm_process_sample", mutated(D._hcm_process_sample, "                    ir += 1\n", "                    ir += 0\n"))
    elif cn is not None:
        raise RuntimeError("unknown canary " + cn)


CANARIES = [
    {"name": "closing_rule_strict", "cases": [{"kind": "count", "n": 3}]},
    {"name": "second_pass_not_flushed", "cases": [{"kind": "count", "n": 3}]},
    {"name": "ir_not_raised", "cases": [{"kind": "count", "n": 3}]},
]
QUICK_CANARIES = 3


def periodic_cycles(x):
    """rainflow cycles (lo, hi) of the endlessly repeated sequence x, started at its largest absolute load"""
    n = len(x)
    X = list(x) + list(x) + list(x)
    tp = O.tp_index(X)
    r = [X[i] for i in tp[1:-1] if n <= i < 2 * n]
    if len(r) < 2:
        return []
    k = 0
    for i in range(1, len(r)):
        if abs(r[i]) > abs(r[k]):
            k = i
    r = r[k:] + r[:k] + [r[k]]
    S, cyc = [], []
    for p in r:
        S.append(p)
        while len(S) >= 3 and abs(S[-1] - S[-2]) >= abs(S[-2] - S[-3]):
            a, b = S[-3], S[-2]
            cyc.append((s_min(a, b), s_max(a, b)))
            del S[-3:-1]
    return cyc


def _hcm(ctx, seq, dtype=None):
    if ctx.sym:
        arr = np.array(seq, dtype=object)
    elif dtype == "int8":
        arr = np.array([int(round(float(v))) for v in seq], dtype=np.int8)      # whole-number loads in a narrow integer array
    else:
        arr = np.array(seq, dtype=np.float64)
    rec = FKMNonlinearRecorder()
    det = FKMNonlinearDetector(recorder=rec, notch_approximation_law=LinearLaw())
    with warnings.catch_warnings():
        warnings.simplefilter("ignore")
        det.process_hcm_first(arr)
        det.process_hcm_second(arr)
    rows = list(zip(list(rec.loads_min), list(rec.loads_max), list(rec._is_closed_hysteresis), list(rec._run_index)))
    return rows


def junction_regions(ctx, x):
    """predicates of the known junction configurations (used for open known findings only).

    deferred_reversal_closes_loop: the last sample s (a trailing plateau counts as one sample) lies strictly
    between its predecessor and zero, so the first pass leaves it to the second pass although it is a
    reversal of the repeated sequence; the second pass processes it at its start *and* at its end.  When
    processing it closes a hysteresis (decided with the Clormann/Seeger oracle on the reversals of the first
    pass), that hysteresis is recorded twice in the second pass."""
    n = len(x)
    k = n - 1
    while k > 0 and bool(x[k - 1] == x[k]):
        k -= 1
    if k == 0:
        return {"deferred_reversal_closes_loop": False}
    p, s = x[k - 1], x[k]
    deferred = bool(sym_or(sym_and(p < s, s < 0), sym_and(p > s, s > 0)))
    if not deferred:
        return {"deferred_reversal_closes_loop": False}
    X = list(x) + list(x) + list(x)
    tp = O.tp_index(X)
    if (n + k) not in tp[1:-1]:
        return {"deferred_reversal_closes_loop": False}      # not a reversal of the repeated sequence
    first = [0] + list(x[:k + 1])
    t1 = O.tp_index(first)
    rev1 = [first[i] for i in t1[1:-1]]
    c0, _ = O.hcm_clormann_seeger(rev1)
    c1, _ = O.hcm_clormann_seeger(rev1 + [s])
    return {"deferred_reversal_closes_loop": len(c1) > len(c0)}


def run(ctx, case):
    _apply_canary(ctx)
    n = case["n"]
    if ctx.sym:
        ctx.eng.int_mode = True      # all inputs are integers: tolerance comparisons become integer comparisons
    xs = [ctx.int("x%d" % i) for i in range(n)]
    ctx.assume(sym_or(*[xs[i] != xs[0] for i in range(1, n)]))
    if case.get("dtype") == "int8":
        # narrow integer input: the witnesses get loads whose differences (and products of differences) leave the int8 range;
        # integer wrap-around is invisible to the object-dtype run and shows in the concrete replay of every path witness
        ctx.assume(sym_and(*[sym_and(x <= 100, x >= -100) for x in xs]))
        ctx.hint(sym_and(*[sym_or(x >= 40, x <= -40) for x in xs]))
    else:
        ctx.hint(sym_and(*[sym_and(x <= 8, x >= -8) for x in xs]))
    regions = junction_regions(ctx, xs)
    for fid, pred in regions.items():
        if ctx.open_finding("C04-" + fid) and pred:
            ctx.assume(False)
    rows = _hcm(ctx, xs, case.get("dtype"))
    run2 = [(lo, hi) for lo, hi, closed, ri in rows if ri == 2]
    exp = periodic_cycles(xs)
    ctx.signature((case["kind"], n, [(bool(c), int(ri)) for _lo, _hi, c, ri in rows]), trivial=(len(run2) == 0))
    if case["kind"] == "count":
        ctx.claim(multiset_eq(run2, exp), "second_pass_cycles", (rows, exp))
        ctx.claim(all(bool(c) for _lo, _hi, c, ri in rows if ri == 2), "second_pass_all_closed", rows)
        half = [(lo, hi, ri) for lo, hi, c, ri in rows if not c]
        ctx.claim(all(ri == 1 for _lo, _hi, ri in half), "half_hystereses_first_pass_symmetric", rows)
        ctx.claim(sym_and(*[lo == -hi for lo, hi, _ri in half]), "half_hystereses_first_pass_symmetric", rows)
        return {"rows": [[lo, hi, bool(c), int(ri)] for lo, hi, c, ri in rows]}
    # refinement: one extra sample that is not a reversal of the repeated sequence, at position pos (pos == n: appended)
    p = case["pos"]
    y = ctx.int("y")
    before = xs[p - 1]
    after = xs[p % n]            # the sample that follows in the repeated sequence (junction for p == n)
    ctx.assume(sym_and(s_min(before, after) <= y, y <= s_max(before, after)))
    refined = xs[:p] + [y] + xs[p:]
    for fid, pred in junction_regions(ctx, refined).items():
        if ctx.open_finding("C04-" + fid) and pred:
            ctx.assume(False)
    rows2 = _hcm(ctx, refined)
    got = [(lo, hi) for lo, hi, closed, ri in rows2 if ri == 2]
    ctx.claim(multiset_eq(got, run2), "refinement_invariant", (rows, rows2))
    return {"rows": [[lo, hi, bool(c), int(ri)] for lo, hi, c, ri in rows2]}
