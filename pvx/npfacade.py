"""A thin `np` stand-in for pylife modules that coerce to float64 or call ufuncs without an object loop.

Only the listed functions are replaced, and only when symbolic data are involved; everything else is
delegated to numpy unchanged.  Every replacement is validated against the real numpy function on
random float64 data by `selftest()` (run at the start of each check that uses the facade).
"""
import math
import types

import numpy as np
import pandas as pd

from .sym import SymReal, SymBool, LogReal, is_sym


def has_sym(x):
    if is_sym(x):
        return True
    if isinstance(x, np.ndarray):
        return x.dtype == object and any(is_sym(v) for v in x.reshape(-1))
    if isinstance(x, pd.Series):
        return x.dtype == object and any(is_sym(v) for v in x.values)
    if isinstance(x, pd.DataFrame):
        return any(has_sym(x[c]) for c in x.columns)
    if isinstance(x, (list, tuple)):
        return any(has_sym(i) for i in x)
    return False


def _is_float_dtype(dtype):
    return dtype in (np.float64, float, np.double, "float64", "float")


def _elementwise(fn, a, *rest):
    """apply fn element-wise keeping container type (scalar, ndarray, Series)"""
    if isinstance(a, pd.Series):
        others = [r.values if isinstance(r, pd.Series) else r for r in rest]
        return pd.Series(_elementwise(fn, a.values, *others), index=a.index)
    arr = np.asarray(a, dtype=object)
    if arr.shape == ():
        args = [np.asarray(r, dtype=object).item() if np.ndim(r) == 0 else r for r in rest]
        r = fn(arr.item(), *args)
        if isinstance(r, float):
            return np.float64(r)      # numpy returns numpy scalars (callers use .ndim, .shape)
        if isinstance(r, bool):
            return np.bool_(r)
        return r
    bro = np.broadcast_arrays(arr, *[np.asarray(r, dtype=object) for r in rest])
    out = np.empty(bro[0].shape, dtype=object)
    for idx in np.ndindex(bro[0].shape):
        out[idx] = fn(*[b[idx] for b in bro])
    return out


def _binary_obj(fn, a, b, out=None, where=True):
    res = _elementwise(fn, a, b)
    if where is True and out is None:
        return res
    base = np.asarray(out if out is not None else np.zeros(np.shape(res)), dtype=object)
    return _elementwise(lambda w, r, o: r if bool(w) else o, np.broadcast_to(np.asarray(where), np.shape(res)), res, base)


def _piecewise_obj(x, condlist, funclist, *args, **kw):
    xs = np.asarray(x, dtype=object)
    n = len(condlist)
    default = funclist[n] if len(funclist) == n + 1 else 0.0

    def one(idx):
        v = xs[idx]
        f = default
        for c, fc in zip(condlist, funclist):
            cv = np.asarray(c, dtype=object)
            if bool(cv[idx] if cv.shape else cv.item()):
                f = fc
                break
        if callable(f):
            r = f(np.array([v], dtype=object), *args, **kw)
            return np.asarray(r, dtype=object).reshape(-1)[0]
        return f
    if xs.shape == ():
        return one(())
    out = np.empty(xs.shape, dtype=object)
    for idx in np.ndindex(xs.shape):
        out[idx] = one(idx)
    return out


def _isfinite1(v):
    if isinstance(v, (SymReal, LogReal)):
        return True
    return bool(np.isfinite(v))


def _isnan1(v):
    if isinstance(v, (SymReal, LogReal)):
        return False
    return bool(np.isnan(v))


def _isinf1(v):
    if isinstance(v, (SymReal, LogReal)):
        return False
    return bool(np.isinf(v))


def _power1(b, e):
    if is_sym(b) or is_sym(e):
        return b ** e
    return np.power(b, e)


def _log10_1(v):
    if isinstance(v, (SymReal, LogReal)):
        return v.log10()
    return np.log10(v)


def _sqrt1(v):
    if isinstance(v, (SymReal, LogReal)):
        return v.sqrt()
    return np.sqrt(v)


def _abs1(v):
    return abs(v)


def _sign1(v):
    if isinstance(v, (SymReal, LogReal)):
        return v.sign()
    return np.sign(v)


def _boolify(r):
    arr = np.asarray(r)
    if arr.dtype == object:
        flat = [bool(v) for v in arr.reshape(-1)]
        return np.array(flat, dtype=bool).reshape(arr.shape) if arr.shape != () else bool(flat[0])
    return r


class NPFacade(types.ModuleType):
    def __init__(self):
        super().__init__("np_facade")

    def __getattr__(self, name):
        return getattr(np, name)

    # -- constructors that would coerce to float64 --------------------------
    def asarray(self, x, dtype=None, **kw):
        if isinstance(x, SymBool):
            return np.asarray(bool(x))
        if has_sym(x) and (dtype is None or _is_float_dtype(dtype)):
            return np.asarray(x, dtype=object, **kw)
        return np.asarray(x, dtype=dtype, **kw)

    def array(self, x, dtype=None, **kw):
        if has_sym(x) and (dtype is None or _is_float_dtype(dtype)):
            return np.array(x, dtype=object, **kw)
        return np.array(x, dtype=dtype, **kw)

    def full_like(self, a, v, dtype=None, **kw):
        if has_sym(a) or has_sym(v):
            return np.full_like(np.asarray(a, dtype=object), v, dtype=object, **kw)
        return np.full_like(a, v, dtype=dtype, **kw)

    def zeros_like(self, a, dtype=None, **kw):
        if has_sym(a) and (dtype is None or _is_float_dtype(dtype)):
            return np.zeros_like(np.asarray(a, dtype=object), dtype=object, **kw)
        return np.zeros_like(a, dtype=dtype, **kw)

    # -- ufuncs without an object loop ------------------------------------
    def isfinite(self, a):
        if has_sym(a) or (isinstance(a, (np.ndarray, pd.Series)) and a.dtype == object):
            return _boolify(_elementwise(_isfinite1, a))
        return np.isfinite(a)

    def isnan(self, a):
        if has_sym(a) or (isinstance(a, (np.ndarray, pd.Series)) and a.dtype == object):
            return _boolify(_elementwise(_isnan1, a))
        return np.isnan(a)

    def isinf(self, a):
        if has_sym(a) or (isinstance(a, (np.ndarray, pd.Series)) and a.dtype == object):
            return _boolify(_elementwise(_isinf1, a))
        return np.isinf(a)

    def power(self, b, e):
        if has_sym(b) or has_sym(e):
            return _elementwise(_power1, b, e)
        return np.power(b, e)

    def log10(self, a):
        if has_sym(a):
            return _elementwise(_log10_1, a)
        return np.log10(a)

    def sqrt(self, a):
        if has_sym(a):
            return _elementwise(_sqrt1, a)
        return np.sqrt(a)

    def hypot(self, a, b):
        if has_sym(a) or has_sym(b):
            return _elementwise(lambda x, y: _sqrt1(x * x + y * y), a, b)
        return np.hypot(a, b)

    def copysign(self, a, b):
        if has_sym(a) or has_sym(b):
            # magnitude of a with the sign of b; b == 0 counts as positive (a symbolic real has no negative zero)
            return _elementwise(lambda x, y: (abs(x) if y >= 0 else -abs(x)), a, b)
        return np.copysign(a, b)

    def fabs(self, a):
        if has_sym(a):
            return _elementwise(_abs1, a)
        return np.fabs(a)

    def sign(self, a):
        if has_sym(a):
            return _elementwise(_sign1, a)
        return np.sign(a)

    def isclose(self, a, b, rtol=1e-05, atol=1e-08, equal_nan=False):
        if has_sym(a) or has_sym(b):
            return _elementwise(lambda x, y: abs(x - y) <= atol + rtol * abs(y), a, b)
        return np.isclose(a, b, rtol=rtol, atol=atol, equal_nan=equal_nan)

    # -- binary ufuncs called with out= / where= (no object loop for the masked form), piecewise, clip -------------
    def _binary(self, name, fn, a, b, out=None, where=True, **kw):
        if not (has_sym(a) or has_sym(b) or (out is not None and has_sym(out))):
            return getattr(np, name)(a, b, **dict(kw, **({} if out is None else {"out": out}), **({} if where is True else {"where": where})))
        return _binary_obj(fn, a, b, out, where)

    def divide(self, a, b, out=None, where=True, **kw):
        return self._binary("divide", lambda x, y: x / y, a, b, out, where, **kw)

    true_divide = divide

    def multiply(self, a, b, out=None, where=True, **kw):
        return self._binary("multiply", lambda x, y: x * y, a, b, out, where, **kw)

    def add(self, a, b, out=None, where=True, **kw):
        return self._binary("add", lambda x, y: x + y, a, b, out, where, **kw)

    def subtract(self, a, b, out=None, where=True, **kw):
        return self._binary("subtract", lambda x, y: x - y, a, b, out, where, **kw)

    def piecewise(self, x, condlist, funclist, *args, **kw):
        if not (has_sym(x) or any(has_sym(c) for c in condlist)):
            try:
                return np.piecewise(x, condlist, funclist, *args, **kw)
            except (TypeError, ValueError):
                pass        # concrete argument, but the pieces produce symbolic values (symbolic parameters)
        return _piecewise_obj(x, condlist, funclist, *args, **kw)

    def clip(self, a, a_min=None, a_max=None, **kw):
        if not (has_sym(a) or has_sym(a_min) or has_sym(a_max)):
            return np.clip(a, a_min, a_max, **kw)
        r = a
        if a_min is not None:
            r = _elementwise(lambda v, lo: lo if bool(v < lo) else v, r, a_min)
        if a_max is not None:
            r = _elementwise(lambda v, hi: hi if bool(v > hi) else v, r, a_max)
        return r

    def digitize(self, x, bins, right=False):
        if not (has_sym(x) or has_sym(bins)):
            return np.digitize(x, bins, right=right)
        return _digitize_obj(x, bins, right)

    def where(self, *args):
        if len(args) == 3 and (has_sym(args[0]) or has_sym(args[1]) or has_sym(args[2])):
            return _elementwise(lambda c, x, y: x if bool(c) else y, *args)
        return np.where(*args)


def _digitize_obj(x, bins, right=False):
    """np.digitize for monotonically increasing bins: a search over the comparison operators of the elements
    (numpy's own implementation tests monotonicity in C on float64)."""
    b = np.asarray(bins, dtype=object)
    for i in range(len(b) - 1):
        if not bool(b[i] <= b[i + 1]):
            raise NotImplementedError("digitize facade: bins must be increasing")
    xa = np.asarray(x, dtype=object)
    flat = [sum(1 for e in b if (bool(e < v) if right else bool(e <= v))) for v in xa.ravel()]
    return np.asarray(flat, dtype=np.intp).reshape(xa.shape)


FACADE = NPFacade()


def selftest(seed=0):
    """every facade function must agree with numpy on plain float data"""
    rng = np.random.default_rng(seed)
    a = rng.normal(size=7) * 10
    p = np.abs(a) + 0.1
    special = np.array([0.0, np.inf, -np.inf, np.nan, 1.5])
    f = FACADE
    checks = [
        (f.asarray(a, dtype=np.float64), np.asarray(a, dtype=np.float64)),
        (f.array(list(a)), np.array(list(a))),
        (f.full_like(a, np.inf), np.full_like(a, np.inf)),
        (f.isfinite(special), np.isfinite(special)),
        (f.isnan(special), np.isnan(special)),
        (f.isinf(special), np.isinf(special)),
        (f.isfinite(np.asarray(special, dtype=object)), np.isfinite(special)),
        (f.power(p, -2.5), np.power(p, -2.5)),
        (f.log10(p), np.log10(p)),
        (f.sqrt(p), np.sqrt(p)),
        (f.fabs(a), np.fabs(a)),
        (f.hypot(a, p), np.hypot(a, p)),
        (f.divide(a, p), np.divide(a, p)),
        (f.divide(a, p, out=np.zeros_like(a), where=a > 0), np.divide(a, p, out=np.zeros_like(a), where=a > 0)),
        (np.asarray(_binary_obj(lambda x, y: x / y, np.asarray(a, dtype=object), p, np.zeros_like(a), a > 0), dtype=float),
         np.divide(a, p, out=np.zeros_like(a), where=a > 0)),
        (f.piecewise(a, [a < 0, a > 3], [lambda v: -v, lambda v: v * 2, 7.0]), np.piecewise(a, [a < 0, a > 3], [lambda v: -v, lambda v: v * 2, 7.0])),
        (np.asarray(_piecewise_obj(np.asarray(a, dtype=object), [a < 0, a > 3], [lambda v: -v, lambda v: v * 2, 7.0]), dtype=float),
         np.piecewise(a, [a < 0, a > 3], [lambda v: -v, lambda v: v * 2, 7.0])),
        (f.clip(a, -1.0, 2.0), np.clip(a, -1.0, 2.0)),
        (_digitize_obj(a, [-1.0, 0.0, 0.5, 2.0]), np.digitize(a, [-1.0, 0.0, 0.5, 2.0])),
        (_digitize_obj(a, [-1.0, 0.0, 0.5, 2.0], True), np.digitize(a, [-1.0, 0.0, 0.5, 2.0], right=True)),
        (_digitize_obj([-1.0, 0.5, 2.0, 3.0], [-1.0, 0.0, 0.5, 2.0]), np.digitize([-1.0, 0.5, 2.0, 3.0], [-1.0, 0.0, 0.5, 2.0])),
        (f.copysign(p, a), np.copysign(p, a)),
        (np.asarray(_elementwise(lambda x, y: (abs(x) if y >= 0 else -abs(x)), p, a), dtype=float), np.copysign(p, a)),
        (np.asarray(_elementwise(lambda x, y: _sqrt1(x * x + y * y), a, p), dtype=float), np.hypot(a, p)),
        (f.sign(a), np.sign(a)),
        (f.where(a > 0, a, -a), np.where(a > 0, a, -a)),
        (f.isclose(a, a + 1e-9), np.isclose(a, a + 1e-9)),
        (np.asarray(_elementwise(lambda x, y: abs(x - y) <= 1e-8 + 1e-5 * abs(y), a, a * (1 + 1e-4)), dtype=bool), np.isclose(a, a * (1 + 1e-4))),
        (_elementwise(_power1, p, 3.0).astype(float), np.power(p, 3.0)),
        (_boolify(_elementwise(_isfinite1, special)), np.isfinite(special)),
    ]
    for got, exp in checks:
        if not np.array_equal(np.asarray(got), np.asarray(exp), equal_nan=True) and \
                not np.allclose(np.asarray(got, dtype=float), np.asarray(exp, dtype=float), rtol=1e-13, equal_nan=True):
            raise RuntimeError("np facade self-test failed: %r vs %r" % (got, exp))
    return len(checks)


def series_to_numpy_keeping_objects(orig):
    """Series.to_numpy(dtype=float) on a Series that holds symbolic values returns the object array (symbolic run only)"""
    def to_numpy(self, dtype=None, *a, **kw):
        if dtype is not None and _is_float_dtype(dtype) and self.dtype == object and has_sym(self):
            return np.asarray(self.values, dtype=object)
        return orig(self, dtype, *a, **kw)
    return to_numpy


# ---------------------------------------------------------------------------
# pandas stand-in: only `pd.Series(data, dtype=float64)` is changed (keeps object dtype for symbolic data)

class _SeriesMeta(type):
    def __instancecheck__(cls, obj):
        return isinstance(obj, pd.Series)

    def __subclasscheck__(cls, sub):
        return issubclass(sub, pd.Series)

    def __call__(cls, data=None, *args, **kw):
        if has_sym(data) and _is_float_dtype(kw.get("dtype")):
            kw["dtype"] = object
        return pd.Series(data, *args, **kw)


class _Series(metaclass=_SeriesMeta):
    pass


class PDFacade(types.ModuleType):
    Series = _Series

    def __init__(self):
        super().__init__("pd_facade")

    def __getattr__(self, name):
        return getattr(pd, name)


PD_FACADE = PDFacade()
