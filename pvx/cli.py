import argparse
import os
import sys

sys.set_int_max_str_digits(0)


def main():
    ap = argparse.ArgumentParser()
    ap.add_argument("prop")
    ap.add_argument("--tier", default=os.environ.get("VERIF_TIER", "quick"), choices=["quick", "thorough"])
    ap.add_argument("--replay")
    ap.add_argument("--jobs", type=int)
    a = ap.parse_args()
    seed = int(os.environ.get("VERIF_SEED", "0") or 0)
    from . import run
    if a.replay:
        sys.exit(run.replay_file(a.replay))
    harness = a.prop.lower()
    try:
        rc = run.main(harness, a.tier, seed, a.jobs)
    except SystemExit:
        raise
    except BaseException as e:      # noqa: BLE001 - a harness error is never a pass and never a violation
        import traceback
        traceback.print_exc()
        print("INCONCLUSIVE: harness error before/while exploring: %s: %s" % (type(e).__name__, e), flush=True)
        rc = 3
    sys.exit(rc)


if __name__ == "__main__":
    main()
