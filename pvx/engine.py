"""Re-execution based dynamic symbolic execution on z3.

The harness function is executed from the start once per feasible decision
sequence (depth first).  Every `SymBool.__bool__` reaches `Engine.branch`, which
asks z3 which outcomes are feasible under the current path condition.  The z3
solver scopes (push/pop) are kept aligned with the decision trail.

Claims are discharged as `path_condition AND NOT claim` queries.
"""
import hashlib
import math
import os
import threading
import time
from fractions import Fraction

import numpy as np
import z3

from . import sym
from .sym import SymReal, SymBool, LogReal, Unsupported


class Infeasible(BaseException):
    """current path condition is unsatisfiable / an assumption cannot be met"""


class Cut(BaseException):
    """prefix enumeration reached its depth limit"""


class StopCase(BaseException):
    """stop exploring this work item (violation recorded / budget exhausted)"""


class HarnessError(Exception):
    pass


def _h(expr):
    return hashlib.sha1(expr.sexpr().encode()).hexdigest()[:12]


def frac_of(v):
    """z3 numeric value -> Fraction (algebraic numbers are approximated to 1e-30)"""
    if z3.is_int_value(v):
        return Fraction(v.as_long())
    if z3.is_rational_value(v):
        return Fraction(v.numerator_as_long(), v.denominator_as_long())
    if z3.is_algebraic_value(v):
        a = v.approx(30)
        return Fraction(a.numerator_as_long(), a.denominator_as_long())
    raise HarnessError("model value %s is not numeric" % v)


class _Watchdog(threading.Thread):
    """interrupts a solver call that overruns its own timeout (z3's nonlinear engine does not always honour it)"""

    def __init__(self, ctx):
        super().__init__(daemon=True)
        self.ctx = ctx
        self.deadline = None
        self.fired = 0

    def run(self):
        while True:
            time.sleep(0.25)
            d = self.deadline
            if d is not None and time.time() > d:
                self.deadline = None
                self.fired += 1
                try:
                    self.ctx.interrupt()
                except Exception:      # noqa: BLE001
                    pass


class Stats:
    FIELDS = ("paths", "infeasible_runs", "decisions", "implied", "cache_hits", "queries", "sat", "unsat",
              "unknown_branch", "unknown_claim", "claims", "claim_queries", "witness_replays", "cuts")

    def __init__(self):
        for f in self.FIELDS:
            setattr(self, f, 0)
        self.solver_s = 0.0

    def as_dict(self):
        d = {f: getattr(self, f) for f in self.FIELDS}
        d["solver_s"] = round(self.solver_s, 3)
        return d


class Engine:
    def __init__(self, timeout_ms=10000, claim_timeout_ms=None):
        self.solver = z3.Solver()
        self.timeout_ms = timeout_ms
        self.claim_timeout_ms = claim_timeout_ms or timeout_ms
        self.solver.set("timeout", timeout_ms)
        self.trail = []        # [decision, pending_other_side, expr, kind]  kind: 'fork' | 'def'
        self.pos = 0
        self.memo = {}
        self.memo_imp = {}
        self.keep = []
        self.epochs = [0]
        self.epoch_ctr = 0
        self.stats = Stats()
        self.forced = None
        self.cut_depth = None
        self.fresh_ctr = 0
        self.inputs = {}       # name -> z3 term  (filled during a run)
        self.ufs = {}          # name -> z3 function
        self.logconsts = {}
        self.model = None      # a model of the current path condition, if known
        self.hints = []
        self.fn_cache = {}
        self.int_mode = False
        self._wd = None
        self.power_hook = None
        self.log10_hook = None
        self.log_tol = Fraction(1, 10 ** 12)

    # ------------------------------------------------------------------ solver
    def _guard(self, ms):
        """context manager: arm the watchdog for a solver call made outside _check"""
        eng = self

        class _G:
            def __enter__(self_inner):
                if eng._wd is None:
                    eng._wd = _Watchdog(eng.solver.ctx)
                    eng._wd.start()
                eng._wd.deadline = time.time() + 1.5 * ms / 1000.0 + 2.0

            def __exit__(self_inner, *exc):
                eng._wd.deadline = None
                return False
        return _G()

    def _dump(self, extra, result):
        """solver cross-check support: write the query as SMT-LIB2 (tools/crosscheck.py re-runs it with cvc5 / old z3)"""
        d = os.environ.get("PVX_DUMP_DIR")
        if not d or result not in ("sat", "unsat"):
            return
        n = getattr(self, "_dumped", 0)
        if n >= int(os.environ.get("PVX_DUMP_MAX", "300")):
            return
        self._dumped = n + 1
        s2 = z3.Solver()
        s2.add(*self.solver.assertions())
        s2.add(*extra)
        with open(os.path.join(d, "q%d_%05d_%s.smt2" % (os.getpid(), n, result)), "w") as f:
            f.write("(set-logic ALL)\n" + s2.to_smt2().replace("(check-sat)", "(check-sat)\n(exit)"))

    def _check(self, *extra, claim=False):
        t = time.time()
        self.stats.queries += 1
        if claim and self.claim_timeout_ms != self.timeout_ms:
            self.solver.set("timeout", self.claim_timeout_ms)
        if self._wd is None:
            self._wd = _Watchdog(self.solver.ctx)
            self._wd.start()
        self._wd.deadline = time.time() + 1.5 * (self.claim_timeout_ms if claim else self.timeout_ms) / 1000.0 + 2.0
        try:
            r = self.solver.check(*extra)
        except z3.Z3Exception:
            r = "unknown"
        finally:
            self._wd.deadline = None
        if claim and self.claim_timeout_ms != self.timeout_ms:
            self.solver.set("timeout", self.timeout_ms)
        self.stats.solver_s += time.time() - t
        s = str(r)
        if s == "sat":
            self.stats.sat += 1
        elif s == "unsat":
            self.stats.unsat += 1
        self._dump(extra, s)
        return s

    def _epoch_at(self, depth):
        return self.epochs[depth] if depth < len(self.epochs) else -1

    def _push(self, decision, pending, expr, kind):
        self.trail.append([decision, pending, expr, kind])
        self.solver.push()
        self.solver.add(expr if decision else z3.Not(expr))
        self.pos += 1
        self.epoch_ctr += 1
        self.epochs = self.epochs[:self.pos] + [self.epoch_ctr]
        self.stats.decisions += 1

    # ------------------------------------------------------------------ forks
    def branch(self, expr):
        if not z3.is_expr(expr):
            return bool(expr)
        expr = z3.simplify(expr)
        if z3.is_true(expr):
            return True
        if z3.is_false(expr):
            return False
        key = expr.get_id()
        hit = self.memo.get(key)
        if hit is not None and hit[1] <= self.pos and hit[2] == self._epoch_at(hit[1]):
            self.stats.cache_hits += 1
            return hit[0]
        if self.pos < len(self.trail):
            ent = self.trail[self.pos]
            if ent[3] == "fork" and ent[2].get_id() == key:
                self.pos += 1
                self.memo[key] = (ent[0], self.pos, self._epoch_at(self.pos))
                self.keep.append(expr)
                return ent[0]
            # an implied decision met again during replay (memo entry was overwritten): re-derive below
        if self.pos < len(self.trail):
            # replaying and this condition is not the recorded one: it was implied when first met
            # and its cache entry is gone -> re-derive it under the prefix only.
            d = self._implied_during_replay(expr)
            self.memo[key] = (d, self.pos, self._epoch_at(self.pos))
            self.keep.append(expr)
            return d
        # new condition under the current path condition
        can_t = can_f = None
        t_from_model = False
        if self.model is not None:
            v = self.model.eval(expr, model_completion=True)
            if z3.is_true(v):
                can_t = True
                t_from_model = True
            elif z3.is_false(v):
                can_f = True
        model_t = None
        if can_t is None:
            r = self._check(expr)
            can_t = (r != "unsat")
            if r == "sat":
                model_t = self.solver.model()
            elif r == "unknown":
                self.stats.unknown_branch += 1
        if can_f is None:
            r = self._check(z3.Not(expr))
            can_f = (r != "unsat")
            if r == "unknown":
                self.stats.unknown_branch += 1
        if can_t != can_f:
            self.stats.implied += 1
            self.memo[key] = (can_t, self.pos, self._epoch_at(self.pos))
            self.keep.append(expr)
            return can_t
        if not can_t:
            raise Infeasible()
        # genuine fork
        if self.forced is not None and len(self.trail) < len(self.forced):
            kind, d, hh = self.forced[len(self.trail)]
            # (the syntactic form of a condition depends on z3's term ordering in this process, so only
            # the kind of the trail entry is compared; forks are semantic and therefore reproducible as
            # long as no query times out, which is checked below)
            if kind != "fork":
                raise HarnessError("prefix replay desynchronised at depth %d" % len(self.trail))
            if self.stats.unknown_branch:
                raise HarnessError("solver answered unknown while replaying a work-item prefix")
            self._push(d, False, expr, "fork")
            self.model = None
            self.memo[key] = (d, self.pos, self._epoch_at(self.pos))
            self.keep.append(expr)
            return d
        if self.cut_depth is not None and sum(1 for ent in self.trail if ent[3] == "fork") >= self.cut_depth:
            raise Cut()          # (the cut depth counts genuine forks, not assumptions / definitions)
        self._push(True, True, expr, "fork")
        if not t_from_model:
            self.model = model_t
        self.memo[key] = (True, self.pos, self._epoch_at(self.pos))
        self.keep.append(expr)
        return True

    def implied(self, expr):
        """True / False if the current path condition implies expr / its negation, else None.
        Never forks.  Results are cached with the trail prefix they were derived under, so that
        re-executions see the same answers (terms built from them stay identical)."""
        if not z3.is_expr(expr):
            return bool(expr)
        expr = z3.simplify(expr)
        if z3.is_true(expr):
            return True
        if z3.is_false(expr):
            return False
        key = expr.get_id()
        hit = self.memo_imp.get(key)
        if hit is not None and hit[1] <= self.pos and hit[2] == self._epoch_at(hit[1]):
            return hit[0]
        if self.pos < len(self.trail):
            s = z3.Solver()
            s.set("timeout", self.timeout_ms)
            for d, _p, e, _k in self.trail[:self.pos]:
                s.add(e if d else z3.Not(e))
            t = time.time()
            self.stats.queries += 2
            try:
                with self._guard(2 * self.timeout_ms):
                    rt, rf = str(s.check(expr)), str(s.check(z3.Not(expr)))
            except z3.Z3Exception:
                rt = rf = "unknown"
            self.stats.solver_s += time.time() - t
        else:
            rt = rf = None
            if self.model is not None:
                v = self.model.eval(expr, model_completion=True)
                if z3.is_true(v):
                    rt = "sat"
                elif z3.is_false(v):
                    rf = "sat"
            if rt is None:
                rt = self._check(expr)
            if rf is None:
                rf = self._check(z3.Not(expr))
        if rt == "unsat" and rf == "unsat":
            raise Infeasible()
        val = True if rf == "unsat" else (False if rt == "unsat" else None)
        self.memo_imp[key] = (val, self.pos, self._epoch_at(self.pos))
        self.keep.append(expr)
        return val

    def _implied_during_replay(self, expr):
        # Conditions that are implied never enter the trail.  During replay the solver holds the
        # *whole* trail, so implication must be decided under the prefix [0:pos] only.  We use a
        # scratch check with the later decisions negated away:  build the prefix as assumptions.
        s = z3.Solver()
        s.set("timeout", self.timeout_ms)
        for d, _p, e, _k in self.trail[:self.pos]:
            s.add(e if d else z3.Not(e))
        t = time.time()
        self.stats.queries += 2
        try:
            with self._guard(2 * self.timeout_ms):
                rt = str(s.check(expr))
                rf = str(s.check(z3.Not(expr)))
        except z3.Z3Exception:
            rt = rf = "unknown"
        self.stats.solver_s += time.time() - t
        if rt != "unsat" and rf == "unsat":
            return True
        if rf != "unsat" and rt == "unsat":
            return False
        if rt == "unsat" and rf == "unsat":
            raise Infeasible()
        raise HarnessError("non-deterministic replay: unexpected fork at depth %d of %d: %s"
                           % (self.pos, len(self.trail), expr))

    # --------------------------------------------------------- assumptions etc
    def define(self, expr, kind="def"):
        """add a constraint that is part of the path (assumption / definitional axiom)"""
        expr = z3.simplify(expr)
        if z3.is_true(expr):
            return
        if self.pos < len(self.trail):
            ent = self.trail[self.pos]
            if ent[3] == "def" and ent[2].get_id() == expr.get_id():
                self.pos += 1
                return
            raise HarnessError("non-deterministic replay at a definition (depth %d)" % self.pos)
        if self.forced is not None and len(self.trail) < len(self.forced):
            kind_f, d, hh = self.forced[len(self.trail)]
            if kind_f != "def":
                raise HarnessError("prefix replay desynchronised at a definition")
        self._push(True, False, expr, "def")
        if self.model is not None and not z3.is_true(self.model.eval(expr, model_completion=True)):
            self.model = None

    def assume(self, cond):
        if isinstance(cond, SymBool):
            e = z3.simplify(cond.e)
        elif z3.is_expr(cond):
            e = z3.simplify(cond)
        else:
            if not bool(cond):
                raise Infeasible()
            return
        if z3.is_true(e):
            return
        if z3.is_false(e):
            raise Infeasible()
        if self.pos < len(self.trail):
            self.define(e)
            return
        if self._check(e) == "unsat":
            raise Infeasible()
        self.define(e)

    def fresh_real(self, tag):
        self.fresh_ctr += 1
        return z3.Real("%s!%d" % (tag, self.fresh_ctr))

    def log_const(self, x):
        """exponent symbol of the concrete positive constant x (bounded to log10(x) +- 1e-12)"""
        key = float(x)
        lg = math.log10(key)
        if 10.0 ** round(lg) == key and abs(lg - round(lg)) < 1e-12:
            return z3.RealVal(int(round(lg)))
        c = z3.Real("lg!%r" % key)
        if key not in self.logconsts:
            self.logconsts[key] = c
            lo = Fraction(lg) - self.log_tol
            hi = Fraction(lg) + self.log_tol
            self.define(z3.And(c >= z3.RealVal(str(lo)), c <= z3.RealVal(str(hi))))
        return c

    def power(self, base, exp):
        if self.power_hook is None:
            raise Unsupported("power %r ** %r" % (base, exp))
        return self.power_hook(base, exp)

    def log10(self, x):
        if self.log10_hook is None:
            raise Unsupported("log10 of a symbolic real")
        return self.log10_hook(x)

    # ------------------------------------------------------------------ claims
    def get_model(self, prefer_dyadic=True, extra=()):
        """a model of the current path condition (plus extra) whose input values are exactly
        representable floats if possible: harness hints first, then the plain model, then dyadic grids"""
        terms = [t for t in self.inputs.values()]
        old = self.timeout_ms

        def exact(m):
            try:
                return all(Fraction(float(v)) == v for v in self.input_values(m).values())
            except HarnessError:
                return False
        plain = None
        small = [z3.And(t <= 64, t >= -64) for t in terms]
        try:
            self.solver.set("timeout", min(3000, old))
            if self.hints:
                hs = list(self.hints) + small
                if self._check(*extra, *hs) == "sat":
                    hinted = self.solver.model()
                    if not prefer_dyadic or exact(hinted):
                        return hinted
                    for k in (0, 3, 10, 30):
                        cons = [z3.IsInt(t * (2 ** k)) for t in terms if t.sort() == z3.RealSort()]
                        if self._check(*extra, *hs, *cons) == "sat":
                            return self.solver.model()
                    return hinted          # consistent with the hints, although not float-exact
            if self._check(*extra, *small) == "sat":
                m = self.solver.model()
                if not prefer_dyadic or exact(m):
                    return m
            self.solver.set("timeout", old)
            if self._check(*extra) == "sat":
                plain = self.solver.model()
                if not prefer_dyadic or not terms or exact(plain):
                    return plain
            else:
                return None
            self.solver.set("timeout", min(300, old))
            for k, more in ((0, small), (3, small), (10, []), (30, small), (44, [])):
                cons = [z3.IsInt(t * (2 ** k)) for t in terms if t.sort() == z3.RealSort()]
                for hints in ((self.hints, []) if self.hints else ([],)):
                    if self._check(*extra, *cons, *more, *hints) == "sat":
                        return self.solver.model()
        finally:
            self.solver.set("timeout", old)
        return plain

    def hint(self, cond):
        """a preference for witness / counterexample models (never part of the path condition)"""
        self.hints.append(cond.e if isinstance(cond, SymBool) else cond)

    def input_values(self, model):
        vals = {}
        for name, t in self.inputs.items():
            vals[name] = frac_of(model.eval(t, model_completion=True))
        return vals

    def eval_obs(self, model, obs):
        """evaluate a nested observation structure in a model -> floats / bools / ints"""
        if isinstance(obs, SymReal):
            return float(frac_of(model.eval(obs.e, model_completion=True)))
        if isinstance(obs, LogReal):
            return 10.0 ** float(frac_of(model.eval(obs.e, model_completion=True)))
        if isinstance(obs, SymBool):
            return bool(z3.is_true(model.eval(obs.e, model_completion=True)))
        if isinstance(obs, dict):
            return {k: self.eval_obs(model, v) for k, v in obs.items()}
        if isinstance(obs, (list, tuple)):
            return [self.eval_obs(model, v) for v in obs]
        if isinstance(obs, np.ndarray):
            return [self.eval_obs(model, v) for v in obs.tolist()]
        if isinstance(obs, (np.floating, float)):
            return float(obs)
        if isinstance(obs, (np.integer,)):
            return int(obs)
        if isinstance(obs, (np.bool_,)):
            return bool(obs)
        return obs

    def uf_table(self, model):
        """concrete instances of the uninterpreted functions of this run, taken from the model.  Arguments
        computed in float arithmetic are matched to the model's function graph with a relative tolerance
        (the output of one function is often the input of the next)."""
        tables = {}
        for name, f in self.ufs.items():
            graph = []
            try:
                fi = model[f]
                if fi is not None:
                    for ent in fi.as_list()[:-1]:
                        graph.append(([float(frac_of(a)) for a in ent[:-1]], float(frac_of(ent[-1]))))
            except Exception:      # noqa: BLE001 - fall back to plain evaluation
                graph = []

            def make(f=f, graph=graph):
                def g(*args):
                    fa = [float(a) for a in args]
                    for ga, gv in graph:
                        if all(abs(x - y) <= 1e-9 * max(abs(x), abs(y), 1e-300) or x == y for x, y in zip(fa, ga)):
                            return gv
                    zargs = [z3.RealVal(str(sym.float_fraction(a))) for a in fa]
                    return float(frac_of(model.eval(f(*zargs), model_completion=True)))
                return g
            tables[name] = make()
        return tables

    def check_claim(self, cond):
        """returns ('holds', None) | ('violated', model) | ('unknown', None)"""
        self.stats.claims += 1
        if isinstance(cond, SymBool):
            e = z3.simplify(cond.e)
        elif z3.is_expr(cond):
            e = z3.simplify(cond)
        else:
            if bool(cond):
                return "holds", None
            m = self.get_model()
            if m is None:
                return "unknown", None
            return "violated", m
        if z3.is_true(e):
            return "holds", None
        # cheap falsification first: a model of the path condition that already violates the claim
        if self.model is None and self.pos == len(self.trail):
            if self._check() == "sat":
                self.model = self.solver.model()
        if self.model is not None and z3.is_false(self.model.eval(e, model_completion=True)):
            m0 = self.model
            m = self.get_model(extra=(z3.Not(e),)) or m0
            return "violated", m
        self.stats.claim_queries += 1
        r = self._check(z3.Not(e), claim=True)
        if r == "unsat":
            return "holds", None
        if r == "unknown":
            r, m0 = self._retry_claim(e)
            if r == "unsat":
                return "holds", None
            if r == "unknown":
                self.stats.unknown_claim += 1
                return "unknown", None
        else:
            m0 = self.solver.model()
        m = self.get_model(extra=(z3.Not(e),)) or m0
        return "violated", m

    def _retry_claim(self, e):
        """the incremental solver gave up on a claim: retry in fresh solvers (different seeds / tactics)"""
        cons = [(x if d else z3.Not(x)) for d, _p, x, _k in self.trail] + [z3.Not(e)]
        attempts = [("smt", 1), ("nlsat", 0), ("smt", 7), ("smt", 23)]
        for kind, seed in attempts:
            if kind == "nlsat":
                s = z3.Then("simplify", "purify-arith", "qfnra-nlsat").solver()
            else:
                s = z3.Solver()
                s.set("random_seed", seed)
            s.set("timeout", self.claim_timeout_ms * 2)
            s.add(*cons)
            t = time.time()
            self.stats.queries += 1
            try:
                with self._guard(self.claim_timeout_ms * 2):
                    r = str(s.check())
            except z3.Z3Exception:
                r = "unknown"
            self.stats.solver_s += time.time() - t
            if r == "unsat":
                self.stats.unsat += 1
                return "unsat", None
            if r == "sat":
                self.stats.sat += 1
                m = s.model()
                # make the main solver agree (it is the one the model helpers use)
                return "sat", m
        return "unknown", None

    # ------------------------------------------------------------------ search
    def explore(self, fn, on_path=None, forced=None, cut_depth=None, deadline=None, max_paths=None):
        """run fn() once per feasible path.  Returns (complete, cut_prefixes)."""
        self.forced = forced
        self.cut_depth = cut_depth
        cuts = []
        complete = True
        while True:
            self.pos = 0
            self.fresh_ctr = 0
            self.inputs = {}
            self.ufs = {}
            self.logconsts = {}
            self.hints = []
            self.fn_cache = {}
            if self.trail:
                self.model = None
            try:
                obs = fn()
                if self.pos != len(self.trail):
                    raise HarnessError("run ended before the recorded trail was consumed (%d of %d)"
                                       % (self.pos, len(self.trail)))
                self.stats.paths += 1
                if on_path is not None:
                    on_path(obs)
            except Infeasible:
                self.stats.infeasible_runs += 1
            except Cut:
                self.stats.cuts += 1
                if self.stats.unknown_branch:
                    raise HarnessError("solver answered unknown while enumerating work-item prefixes")
                cuts.append([(k, d, "") for d, _p, e, k in self.trail])
            except StopCase:
                complete = False
                break
            # backtrack
            while self.trail and not self.trail[-1][1]:
                self.trail.pop()
                self.solver.pop()
            if not self.trail:
                break
            if deadline is not None and time.time() > deadline:
                complete = False
                break
            if max_paths is not None and self.stats.paths >= max_paths:
                complete = False
                break
            d, _p, e, k = self.trail[-1]
            self.solver.pop()
            self.trail[-1] = [not d, False, e, k]
            self.solver.push()
            self.solver.add(z3.Not(e) if d else e)
            self.epoch_ctr += 1
            self.epochs = self.epochs[:len(self.trail)] + [self.epoch_ctr]
            self.model = None
        # leave the solver clean
        while self.trail:
            self.trail.pop()
            self.solver.pop()
        return complete, cuts
