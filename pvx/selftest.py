"""Self-test of the symbolic number model: random expression trees are built once with SymReal (quotient
normal form, sign logic, IEEE division) and once with exact Fractions; under the assignment x_i = v_i the two must
agree on every value and every comparison.  Run at the start of every check (a fraction of a second)."""
import math
import random
from fractions import Fraction

import z3

from . import sym
from .engine import Engine, Infeasible
from .sym import SymReal, SymBool


def _rand_expr(rng, depth, syms, vals):
    """returns (symbolic value, exact value); exact value is a Fraction or a float inf/nan"""
    if depth == 0 or rng.random() < 0.25:
        if rng.random() < 0.6:
            i = rng.randrange(len(syms))
            return syms[i], vals[i]
        c = rng.choice([0, 1, -1, 2, 3, 0.5, 0.25, -1.5, 0.1, 0.3])
        return c, sym.float_fraction(float(c))
    op = rng.choice("++--**//an")
    a, av = _rand_expr(rng, depth - 1, syms, vals)
    if op in "an":
        if isinstance(av, float):
            return a, av
        return (abs(a), abs(av)) if op == "a" else (-a, -av)
    b, bv = _rand_expr(rng, depth - 1, syms, vals)
    if isinstance(av, float) or isinstance(bv, float):
        return a, av          # keep specials out of further arithmetic (covered by the harnesses' witness replays)
    if not isinstance(a, SymReal) and not isinstance(b, SymReal):
        # constant (op) constant is evaluated by Python in float arithmetic, exactly as in the code under test
        if op == "/" and b == 0:
            return a, av
        c = {"+": a + b, "-": a - b, "*": a * b, "/": a / b if b else a}[op]
        return c, sym.float_fraction(float(c))
    if op == "+":
        return a + b, av + bv
    if op == "-":
        return a - b, av - bv
    if op == "*":
        return a * b, av * bv
    if bv == 0:
        r = a / b
        exp = float("inf") if av > 0 else (float("-inf") if av < 0 else float("nan"))
        return r, exp
    return a / b, av / bv


def run(seed=0, n=150):
    rng = random.Random(seed)
    eng = Engine(timeout_ms=5000)
    old = sym._ENGINE[0]
    sym.set_engine(eng)
    checked = 0
    try:
        for _ in range(n):
            names = ["st_a", "st_b", "st_c"]
            vals = [Fraction(rng.randint(-6, 6), rng.choice([1, 1, 2, 3, 4])) for _ in names]
            eng.solver.push()
            terms = [z3.Real(nm) for nm in names]
            for t, v in zip(terms, vals):
                eng.solver.add(t == z3.RealVal(str(v)))
            eng.trail, eng.pos, eng.memo, eng.memo_imp, eng.model = [], 0, {}, {}, None
            syms = [SymReal(t) for t in terms]
            try:
                x, xv = _rand_expr(rng, 4, syms, vals)
                y, yv = _rand_expr(rng, 3, syms, vals)
            except Infeasible:
                raise RuntimeError("symbolic number self-test: infeasible branch under a full assignment")
            for s_, v in ((x, xv), (y, yv)):
                if isinstance(s_, SymReal):
                    if isinstance(v, float):
                        raise RuntimeError("self-test: expected %r, got symbolic %r" % (v, s_))
                    if eng.solver.check(s_.e != z3.RealVal(str(v))) != z3.unsat:
                        raise RuntimeError("symbolic number self-test: value mismatch %r vs %s" % (s_, v))
                elif isinstance(v, float):
                    if not (isinstance(s_, float) and (s_ == v or (math.isnan(s_) and math.isnan(v)))):
                        raise RuntimeError("symbolic number self-test: special value mismatch %r vs %r" % (s_, v))
                elif sym.float_fraction(float(s_)) != v and Fraction(s_) != v:
                    raise RuntimeError("symbolic number self-test: constant mismatch %r vs %s" % (s_, v))
                checked += 1
            if not isinstance(xv, float) and not isinstance(yv, float) and (isinstance(x, SymReal) or isinstance(y, SymReal)):
                for name, pyop in (("<", lambda p, q: p < q), ("<=", lambda p, q: p <= q), ("==", lambda p, q: p == q),
                                   (">", lambda p, q: p > q), ("!=", lambda p, q: p != q)):
                    r = pyop(x, y)
                    exp = pyop(xv, yv)
                    if isinstance(r, SymBool):
                        got_true = eng.solver.check(z3.Not(r.e)) == z3.unsat
                        got_false = eng.solver.check(r.e) == z3.unsat
                        if got_true == got_false or got_true != exp:
                            raise RuntimeError("symbolic number self-test: comparison %s mismatch on %r %r" % (name, x, y))
                    elif bool(r) != exp:
                        raise RuntimeError("symbolic number self-test: comparison %s mismatch" % name)
                    checked += 1
            while eng.trail:
                eng.trail.pop()
                eng.solver.pop()
            eng.solver.pop()
    finally:
        sym.set_engine(old)
    return checked
