"""Mechanical translation of pylife's Cython rainflow kernels (extension.pyx) to Python.

The translation is regenerated from the working tree's .pyx text on every run.  It knows exactly
the constructs that occur in that file (typed signatures, cdef declarations with and without
initialiser, memoryview aliases, cimport lines, @cython decorators, libc fabs); anything else
raises TranslationError, which the checks report as a harness error (never as a pass).

`size_t` variables are unsigned in C: a decrement below zero would wrap.  The translation wraps
every `-=` on a size_t variable into a check that raises KernelUnderflow if the result would be
negative, so that the wrap cannot go unnoticed with Python integers.
"""
import re

import numpy as np


class TranslationError(Exception):
    pass


class KernelUnderflow(Exception):
    pass


_KNOWN_CTYPES = ("double", "size_t", "Py_ssize_t", "int", "long", "bint")


def translate(src):
    # join multi-line signatures
    lines, buf = [], None
    for line in src.splitlines():
        if buf is not None:
            buf += " " + line.strip()
            if buf.count("(") == buf.count(")"):
                lines.append(buf)
                buf = None
            continue
        st = line.strip()
        if st.startswith(("def ", "cdef ", "cpdef ")) and line.count("(") > line.count(")"):
            buf = line
            continue
        lines.append(line)
    if buf is not None:
        raise TranslationError("unterminated signature: " + buf)
    out = []
    unsigned = set()
    for line in lines:
        s = line.strip()
        ind = line[:len(line) - len(line.lstrip())]
        if not s or s.startswith("#"):
            out.append(line)
            continue
        if s == "cimport cython" or s.startswith("from libc.math cimport"):
            continue
        if s.startswith("cimport") or " cimport " in s:
            raise TranslationError("unknown cimport: " + s)
        if s.startswith("@cython."):
            if not re.match(r"@cython\.(boundscheck|wraparound|cdivision|nonecheck|initializedcheck)\((True|False)\)", s):
                raise TranslationError("unknown decorator: " + s)
            continue
        if s.startswith("@"):
            raise TranslationError("unknown decorator: " + s)
        m = re.match(r"(def|cpdef|cdef)\s+(?:(?:%s)\s+)?(\w+)\((.*)\)\s*:\s*$" % "|".join(_KNOWN_CTYPES), s)
        if m and (s.startswith("def ") or "(" in s.split("=")[0]):
            args = []
            for a in [a.strip() for a in m.group(3).split(",") if a.strip()]:
                am = re.match(r"(?:(double|size_t|Py_ssize_t|int|long)\s*(\[::1\]|\[:\])?\s+)?(\w+)$", a)
                if not am:
                    raise TranslationError("unknown argument declaration: " + a)
                if am.group(1) == "size_t" and not am.group(2):
                    unsigned.add(am.group(3))
                args.append(am.group(3))
            out.append("%sdef %s(%s):" % (ind, m.group(2), ", ".join(args)))
            continue
        if s.startswith(("cdef ", "cpdef ")):
            dm = re.match(r"cdef\s+(double|size_t|Py_ssize_t|int|long|bint)\s*(\[::1\]|\[:\])?\s+(\w+)\s*(=\s*(.*))?$", s)
            if not dm:
                raise TranslationError("unknown cdef statement: " + s)
            if dm.group(1) == "size_t" and not dm.group(2):
                unsigned.add(dm.group(3))
            if dm.group(4):
                out.append("%s%s = %s" % (ind, dm.group(3), dm.group(5)))
            continue
        dec = re.match(r"(\w+)\s*-=\s*(.+)$", s)
        if dec and dec.group(1) in unsigned:
            out.append("%s%s = _usub(%s, %s)" % (ind, dec.group(1), dec.group(1), dec.group(2)))
            continue
        out.append(line)
    py = "\n".join(out)
    if "cdef" in py or "cimport" in py:
        raise TranslationError("untranslated Cython construct remains")
    for tok in ("np.float64", "np.uintp"):
        pass
    py = py.replace("dtype=np.float64", "dtype=object")
    return py


def _usub(a, b):
    r = a - b
    if r < 0:
        raise KernelUnderflow("size_t variable would wrap below zero")
    return r


def load(path, number_abs=abs):
    """returns the namespace of the translated module"""
    with open(path) as f:
        src = f.read()
    py = translate(src)
    ns = {"fabs": number_abs, "_usub": _usub, "np": np}
    exec(compile(py, path + " (translated)", "exec"), ns)
    return ns, py, src
