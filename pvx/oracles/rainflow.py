"""Executable definitions the rainflow detectors are compared with (C02, C03, C04).

Written from the definitions with explicit loops over scalars; they run unchanged on floats and on
symbolic reals (comparisons then fork in the engine).  Nothing here imports pylife.
"""


def _sgn(d):
    if d > 0:
        return 1
    if d < 0:
        return -1
    return 0


def tp_index(x):
    """indices of the turning-point sequence: first sample, interior reversals (first sample of a
    plateau), last sample"""
    n = len(x)
    if n == 0:
        return []
    idx = [0]
    i = 1
    while i < n - 1:
        j = i
        while j + 1 < n and x[j + 1] == x[i]:
            j += 1
        if j < n - 1:
            s1 = _sgn(x[i] - x[i - 1])
            s2 = _sgn(x[j + 1] - x[i])
            if s1 != 0 and s2 != 0 and s1 != s2:
                idx.append(i)
        i = j + 1
    if n > 1:
        idx.append(n - 1)
    return idx


def reversal_index(x):
    """interior reversals only"""
    t = tp_index(x)
    return t[1:-1] if len(t) >= 2 else []


def four_point(points):
    """textbook four-point rule on a list of (index, value); returns (cycles, residual)
    cycles: list of ((i_from, v_from), (i_to, v_to)) in closing order"""
    S, cycles = [], []
    for p in points:
        S.append(p)
        while len(S) >= 4:
            a, b, c, d = S[-4][1], S[-3][1], S[-2][1], S[-1][1]
            inner = abs(b - c)
            if inner <= abs(a - b) and inner <= abs(c - d):
                cycles.append((S[-3], S[-2]))
                del S[-3:-1]
            else:
                break
    return cycles, S


def hcm_clormann_seeger(values):
    """Clormann/Seeger HCM (1985) on a reversal sequence; returns (cycles [(from, to)], residual)"""
    res, cycles = [], []
    ir = 1
    for k in values:
        while True:
            iz = len(res)
            if iz > ir:
                i, j = res[-2], res[-1]
                if abs(k - j) >= abs(j - i):
                    cycles.append((i, j))
                    res.pop()
                    res.pop()
                    continue
                break
            if iz == ir and abs(k) > abs(res[-1]):
                ir += 1
            break
        res.append(k)
    return cycles, res
