"""Coordinator: work items, worker processes, witness replay, verdict, evidence."""
import concurrent.futures as cf
import hashlib
import importlib
import inspect
import json
import math
import multiprocessing as mp
import os
import sys
import time
import traceback
import warnings
from fractions import Fraction

import numpy as np
import z3

from . import sym
from .sym import SymReal, SymBool, LogReal, Unsupported
from .engine import Engine, Infeasible, StopCase, HarnessError, Cut, frac_of

VERIF = os.path.dirname(os.path.dirname(os.path.abspath(__file__)))
REPO = os.environ.get("PVX_REPO", "/repo")
EXIT_OK, EXIT_VIOLATION, EXIT_INCONCLUSIVE = 0, 1, 3


_MISSING = object()


class AssumptionFailed(BaseException):
    pass


class StopReplay(BaseException):
    pass


# ---------------------------------------------------------------------------
# harness-facing contexts

class _CtxBase:
    def __init__(self, case, findings_open, canary=None, ignore_findings=False):
        self.case = case
        self.canary = canary
        self._patches = []
        self._open = set(findings_open)
        self.ignore_findings = ignore_findings
        self.signatures = []
        self.reached = {}

    def patch(self, obj, attr, value):
        old = getattr(obj, attr, _MISSING) if attr in getattr(obj, "__dict__", {}) or hasattr(obj, attr) else _MISSING
        self._patches.append((obj, attr, old))
        setattr(obj, attr, value)

    def undo_patches(self):
        while self._patches:
            obj, attr, old = self._patches.pop()
            if old is _MISSING:
                try:
                    delattr(obj, attr)
                except AttributeError:
                    pass
            else:
                setattr(obj, attr, old)

    def suspended(self):
        """context manager: this context's patches are lifted (the real code is visible) and re-applied after"""
        ctx = self

        class _S:
            def __enter__(self_inner):
                self_inner.saved = []
                for obj, attr, old in reversed(ctx._patches):
                    self_inner.saved.append((obj, attr, getattr(obj, attr)))
                    if old is _MISSING:
                        delattr(obj, attr)
                    else:
                        setattr(obj, attr, old)

            def __exit__(self_inner, *exc):
                for obj, attr, cur in reversed(self_inner.saved):
                    setattr(obj, attr, cur)
                return False
        return _S()

    def open_finding(self, fid):
        return (fid in self._open) and not self.ignore_findings

    def signature(self, obj, trivial=False):
        self.signatures.append((repr(obj), bool(trivial)))


class SymCtx(_CtxBase):
    sym = True

    def __init__(self, eng, case, findings_open, canary=None, replay=None):
        super().__init__(case, findings_open, canary)
        self.eng = eng
        self._replay = replay
        self.violation = None
        self.errors = []

    def real(self, name):
        t = z3.Real(name)
        self.eng.inputs[name] = t
        return SymReal(t)

    def int(self, name):
        t = z3.ToReal(z3.Int(name))
        self.eng.inputs[name] = t
        return SymReal(t)

    def logreal(self, name):
        t = z3.Real(name)
        self.eng.inputs["lg:" + name] = t
        return LogReal(t)

    def uf(self, name, arity=1, concrete=None):
        f = z3.Function(name, *([z3.RealSort()] * (arity + 1)))
        self.eng.ufs[name] = f

        def call(*args):
            es = []
            for a in args:
                e = sym.lift(a)
                if e is None or e is NotImplemented:
                    raise Unsupported("uninterpreted function applied to %r" % (a,))
                es.append(e)
            return SymReal(f(*es))
        return call

    def assume(self, cond):
        self.eng.assume(cond)

    def define(self, cond):
        self.eng.define(cond.e if isinstance(cond, SymBool) else cond)

    def hint(self, cond):
        """preference for the concrete witness / counterexample values of this path (not a constraint)"""
        if isinstance(cond, SymBool):
            self.eng.hint(cond)

    def eq(self, a, b):
        """exact equality in the symbolic run (reals); tolerant equality in concrete float replays"""
        from .util import eq_struct
        return eq_struct(a, b)

    def close(self, a, b, rtol=1e-12):
        """|a-b| <= rtol*(|a|+|b|) element-wise (for claims whose code contains rounded float constants)"""
        from .util import close_struct
        return close_struct(a, b, rtol)

    def claim(self, cond, label, detail=None):
        self.reached[label] = self.reached.get(label, 0) + 1
        st, model = self.eng.check_claim(cond)
        if st == "holds":
            return True
        if st == "unknown":
            self.errors.append({"kind": "unknown_claim", "label": label, "case": self.case})
            raise StopCase()
        values = self.eng.input_values(model)
        if hasattr(self, "_realise") and self._realise is not None:
            values = self._realise(dict(values))
        rec = {"label": label, "case": self.case, "canary": self.canary,
               "inputs": {k: str(v) for k, v in values.items()},
               "inputs_float": {k: float(v) for k, v in values.items()},
               "detail": detail if detail is None else str(detail)}
        if self._replay is not None:
            with self.suspended():
                failed, cobs, outside, err = self._replay(values, self.eng.uf_table(model))
            rec["replay_failed_labels"] = failed
            rec["replay_outside_assumptions"] = outside
            rec["replay_error"] = err
            rec["replay_obs"] = _jsonable(cobs)
            rec["reproduced"] = bool(failed) and not outside and err is None
        else:
            rec["reproduced"] = None
        self.violation = rec
        raise StopCase()

    def code_raised(self, exc):
        """the code under test raised on this path: a violation if the real code raises too"""
        self.reached["no_exception"] = self.reached.get("no_exception", 0) + 1
        model = self.eng.get_model()
        if model is None:
            self.errors.append({"kind": "exception_without_model", "case": self.case, "error": repr(exc)})
            raise StopCase()
        values = self.eng.input_values(model)
        rec = {"label": "no_exception", "case": self.case, "canary": self.canary,
               "inputs": {k: str(v) for k, v in values.items()},
               "inputs_float": {k: float(v) for k, v in values.items()},
               "detail": "%s: %s" % (type(exc).__name__, exc),
               "trace": traceback.format_exc()[-2000:]}
        with self.suspended():
            failed, cobs, outside, err = self._replay(values, self.eng.uf_table(model))
        rec["replay_failed_labels"] = failed
        rec["replay_outside_assumptions"] = outside
        rec["replay_error"] = err
        rec["reproduced"] = (err is not None) and not outside
        self.violation = rec
        raise StopCase()


class ConcCtx(_CtxBase):
    sym = False

    def __init__(self, case, values, ufs, findings_open, canary=None, ignore_findings=False):
        super().__init__(case, findings_open, canary, ignore_findings)
        self.values = values
        self.ufs = ufs or {}
        self.failed = []
        self.eng = None
        self.defaulted = False

    def real(self, name):
        if name not in self.values:
            # input created after the point the counterexample refers to: any value will do
            self.defaulted = True
            return 0.0
        return float(self.values[name])

    int = real

    def logreal(self, name):
        if "lg:" + name not in self.values:
            self.defaulted = True
            return 1.0
        return 10.0 ** float(self.values["lg:" + name])

    def uf(self, name, arity=1, concrete=None):
        if name in self.ufs:
            return self.ufs[name]
        if concrete is None:
            raise KeyError("no concrete instance for uninterpreted function " + name)
        return concrete

    def assume(self, cond):
        if not bool(cond):
            if self.defaulted:
                raise StopReplay()      # an assumption about inputs that did not exist yet at the reported point
            raise AssumptionFailed()

    def define(self, cond):
        pass

    def hint(self, cond):
        pass

    def eq(self, a, b, rtol=1e-9, atol=1e-12):
        return obs_equal(_plain(a), _plain(b), rtol, atol)

    def close(self, a, b, rtol=1e-12):
        return obs_equal(_plain(a), _plain(b), 1e-9, 1e-12)

    def claim(self, cond, label, detail=None):
        self.reached[label] = self.reached.get(label, 0) + 1
        ok = bool(cond)
        if not ok:
            self.failed.append(label)
        return ok


def _jsonable(o):
    if isinstance(o, (SymReal, SymBool, LogReal)):
        return repr(o)
    if isinstance(o, dict):
        return {str(k): _jsonable(v) for k, v in o.items()}
    if isinstance(o, (list, tuple)):
        return [_jsonable(v) for v in o]
    if isinstance(o, np.ndarray):
        return [_jsonable(v) for v in o.tolist()]
    if isinstance(o, (np.floating, float)):
        f = float(o)
        return f if math.isfinite(f) else repr(f)
    if isinstance(o, np.integer):
        return int(o)
    if isinstance(o, np.bool_):
        return bool(o)
    if isinstance(o, Fraction):
        return str(o)
    if o is None or isinstance(o, (int, str, bool)):
        return o
    return repr(o)


def _plain(o):
    if isinstance(o, np.ndarray):
        return [_plain(v) for v in o.tolist()]
    if isinstance(o, (list, tuple)):
        return [_plain(v) for v in o]
    if isinstance(o, dict):
        return {k: _plain(v) for k, v in o.items()}
    if hasattr(o, "tolist") and not isinstance(o, (np.generic,)):
        return _plain(o.tolist())
    return o


def obs_equal(a, b, rtol, atol=0.0):
    if isinstance(a, dict) and isinstance(b, dict):
        return a.keys() == b.keys() and all(obs_equal(a[k], b[k], rtol, atol) for k in a)
    if isinstance(a, (list, tuple)) and isinstance(b, (list, tuple)):
        return len(a) == len(b) and all(obs_equal(x, y, rtol, atol) for x, y in zip(a, b))
    if isinstance(a, (bool, np.bool_)) or isinstance(b, (bool, np.bool_)):
        return bool(a) == bool(b)
    if isinstance(a, (int, float, np.integer, np.floating)) and isinstance(b, (int, float, np.integer, np.floating)):
        a, b = float(a), float(b)
        if math.isnan(a) or math.isnan(b):
            return math.isnan(a) and math.isnan(b)
        if a == b:
            return True
        if (rtol or atol) and math.isfinite(a) and math.isfinite(b):
            return abs(a - b) <= max(rtol * max(abs(a), abs(b)), atol)
        return False
    return a == b


def shape_sig(o):
    if isinstance(o, (SymReal, LogReal)):
        return "R"
    if isinstance(o, SymBool):
        return "B"
    if isinstance(o, dict):
        return "{" + ",".join("%s:%s" % (k, shape_sig(v)) for k, v in o.items()) + "}"
    if isinstance(o, (list, tuple)):
        return "[" + ",".join(shape_sig(v) for v in o) + "]"
    if isinstance(o, np.ndarray):
        return shape_sig(o.tolist())
    if isinstance(o, (float, np.floating)):
        f = float(o)
        return "R" if math.isfinite(f) else repr(f)
    return repr(o)


# ---------------------------------------------------------------------------
# worker

def _load(harness):
    return importlib.import_module("pvx.harness." + harness)


def run_concrete(H, case, values, ufs, findings_open, canary=None, ignore_findings=False):
    """run the harness on the unpatched real code with float inputs.
    returns (failed_labels, obs, outside_assumptions, error)"""
    ctx = ConcCtx(case, values, ufs, findings_open, canary, ignore_findings)
    obs, outside, err = None, False, None
    try:
        with warnings.catch_warnings():
            warnings.simplefilter("ignore")
            obs = H.run(ctx, case)
    except AssumptionFailed:
        outside = True
    except StopReplay:
        pass
    except Exception as e:       # noqa: BLE001 - report, never swallow silently
        if not (ctx.defaulted and ctx.failed):
            err = "%s: %s" % (type(e).__name__, e)
    finally:
        ctx.undo_patches()
    return list(ctx.failed), obs, outside, err


def run_task(task):
    t0 = time.time()
    sd = os.environ.get("PVX_STATUS_DIR")        # debugging aid: which work item does this process run
    if sd:
        try:
            with open(os.path.join(sd, "%d.json" % os.getpid()), "w") as f:
                json.dump({k: (v if k != "prefix" else len(v or [])) for k, v in task.items() if k != "opts"}, f, default=str)
        except OSError:
            pass
    out = {"task": {k: v for k, v in task.items() if k != "prefix"}, "violations": [], "errors": [],
           "samples": [], "signatures": [], "reached": {}, "subtasks": [], "complete": True}
    try:
        warnings.simplefilter("ignore")
        H = _load(task["harness"])
        case = task["case"]
        canary = task.get("canary")
        opts = task["opts"]
        fopen = task["findings_open"]
        eng = Engine(timeout_ms=opts["timeout_ms"], claim_timeout_ms=opts.get("claim_timeout_ms"))
        sym.set_engine(eng)
        rtol = getattr(H, "RTOL", 0.0)
        state = {"ctx": None, "npaths": 0}
        witness_every = opts.get("witness_every", 1)

        analytic = getattr(H, "CONCRETE_UF", "model") == "analytic"

        def replay(values, ufs):
            if hasattr(H, "realise"):
                values = H.realise(case, dict(values))
            return run_concrete(H, case, values, None if analytic else ufs, fopen, canary)

        def fn():
            ctx = SymCtx(eng, case, fopen, canary, replay)
            ctx._realise = (lambda v: H.realise(case, v)) if hasattr(H, "realise") else None
            state["ctx"] = ctx
            try:
                return H.run(ctx, case)
            except Unsupported as e:
                ctx.errors.append({"kind": "unsupported", "case": case, "error": str(e),
                                   "trace": traceback.format_exc()[-1500:]})
                raise StopCase()
            except HarnessError:
                raise
            except Exception as e:      # noqa: BLE001 - raised by the code under test (or by the encoding)
                ctx.code_raised(e)
            finally:
                ctx.undo_patches()

        def on_path(obs):
            ctx = state["ctx"]
            state["npaths"] += 1
            for k, v in ctx.reached.items():
                out["reached"][k] = out["reached"].get(k, 0) + v
            sigs = ctx.signatures or [(shape_sig(obs), obs is None)]
            out["signatures"].extend(sigs)
            if obs is None:
                return
            do_witness = witness_every and (state["npaths"] % witness_every == 0) and not canary
            want_sample = len(out["samples"]) < 1
            if not (do_witness or want_sample):
                return
            model = eng.get_model()
            if model is None:
                return
            values = eng.input_values(model)
            expected = eng.eval_obs(model, obs)
            if want_sample:
                out["samples"].append({"case": case, "inputs": {k: float(v) for k, v in values.items()},
                                       "outputs": _jsonable(expected)})
            if not do_witness:
                return
            exact = all(Fraction(float(v)) == v for v in values.values())
            if not exact and not rtol:
                out.setdefault("witness_skipped_inexact", 0)
                out["witness_skipped_inexact"] += 1
                return
            # a model with absurd magnitudes (the solver's own choice when the hinted query timed out, e.g. 1e-173) would
            # only test float underflow / overflow, which the reals model excludes: no replay for such a witness
            if any(v != 0 and not (2.0 ** -30 <= abs(float(v)) <= 2.0 ** 30) for k, v in values.items() if not k.startswith("lg:")):
                out.setdefault("witness_skipped_extreme", 0)
                out["witness_skipped_extreme"] += 1
                return
            failed, cobs, outside, err = replay(values, eng.uf_table(model))
            eng.stats.witness_replays += 1
            cobs_j = eng.eval_obs(model, cobs) if cobs is not None else None
            if failed and not outside and not err:
                # the real code breaks a claim on the path's witness although the encoding satisfies it on the whole
                # path (behaviour the encoding does not carry, e.g. numpy integer dtypes): the real code decides
                ctx.violation = {"label": failed[0], "case": case, "canary": canary,
                                 "inputs": {k: str(v) for k, v in values.items()},
                                 "inputs_float": {k: float(v) for k, v in values.items()},
                                 "detail": "claim fails in the concrete replay of the path witness on the real code; the "
                                           "symbolic encoding of this path satisfies it (encoding gap)",
                                 "found_by": "witness_replay", "replay_failed_labels": failed,
                                 "replay_outside_assumptions": False, "replay_error": None,
                                 "replay_obs": _jsonable(cobs_j), "reproduced": True}
                raise StopCase()
            if outside or err or failed or not obs_equal(expected, cobs_j, rtol, getattr(H, "ATOL", 0.0)):
                out["errors"].append({"kind": "encoding_mismatch", "case": case,
                                      "inputs": {k: str(v) for k, v in values.items()},
                                      "symbolic": _jsonable(expected), "concrete": _jsonable(cobs_j),
                                      "concrete_failed_labels": failed, "outside": outside, "error": err})
                raise StopCase()

        deadline = t0 + opts["task_budget_s"]
        try:
            complete, cuts = eng.explore(fn, on_path=on_path, forced=task.get("prefix"),
                                         cut_depth=task.get("cut"), deadline=deadline)
        except StopCase:
            complete, cuts = False, []
        ctx = state["ctx"]
        if ctx is not None:
            if ctx.violation is not None:
                out["violations"].append(ctx.violation)
                complete = True if canary else complete
            out["errors"].extend(ctx.errors)
            if ctx.violation is None and not complete and not ctx.errors and not out["errors"]:
                out["errors"].append({"kind": "budget_exhausted", "case": case})
        out["complete"] = complete
        out["subtasks"] = cuts
        out["stats"] = eng.stats.as_dict()
    except BaseException as e:   # noqa: BLE001
        out["errors"].append({"kind": "harness_exception", "case": task.get("case"),
                              "error": "%s: %s" % (type(e).__name__, e),
                              "trace": traceback.format_exc()[-3000:]})
        out["complete"] = False
        out.setdefault("stats", {})
    out["wall_s"] = round(time.time() - t0, 3)
    return out


# ---------------------------------------------------------------------------
# findings

def load_findings(prop):
    p = os.path.join(VERIF, "known_findings.json")
    if not os.path.exists(p):
        return []
    with open(p) as f:
        data = json.load(f)
    return [e for e in data.get("findings", []) if e.get("property") == prop]


# ---------------------------------------------------------------------------
# coordinator

def source_hashes(H):
    out = {}
    for spec in getattr(H, "ENCODED", []):
        try:
            if spec.startswith("file:"):
                path = spec[5:]
                with open(os.path.join(REPO, path), "rb") as f:
                    out[spec] = hashlib.sha256(f.read()).hexdigest()[:16]
                continue
            modname, qual = spec.split(":")
            obj = importlib.import_module(modname)
            for part in qual.split("."):
                obj = getattr(obj, part)
            if isinstance(obj, property):
                obj = obj.fget
            src = inspect.getsource(obj)
            out[spec] = hashlib.sha256(src.encode()).hexdigest()[:16]
        except Exception as e:   # noqa: BLE001
            out[spec] = "unresolved: %s" % e
    return out


def _selftest_child(conn, seed):
    try:
        from . import selftest
        conn.send(("ok", selftest.run(seed, 80)))
    except BaseException as e:      # noqa: BLE001
        conn.send(("error", "%s: %s" % (type(e).__name__, e)))
    finally:
        conn.close()


def _selftest_in_child(seed):
    ctx = mp.get_context("fork")
    pc, cc = ctx.Pipe(duplex=False)
    pr = ctx.Process(target=_selftest_child, args=(cc, seed), daemon=True)
    pr.start()
    cc.close()
    if not pc.poll(120):
        pr.kill()
        raise HarnessError("number-model self-test did not finish")
    status, val = pc.recv()
    pr.join(timeout=5)
    if status != "ok":
        raise HarnessError("number-model self-test failed: %s" % val)
    return val


def main(harness, tier, seed, jobs=None):
    t0 = time.time()
    H = _load(harness)
    prop = H.PROPERTY
    jobs = jobs or int(os.environ.get("PVX_JOBS", os.cpu_count() or 4))
    opts = dict(H.options(tier)) if hasattr(H, "options") else {}
    opts.setdefault("timeout_ms", 10000 if tier == "quick" else 60000)
    opts.setdefault("task_budget_s", 600 if tier == "quick" else 3 * 3600)
    opts.setdefault("witness_every", 1)
    findings = load_findings(prop)
    fopen = [e["id"] for e in findings if e.get("status") == "open"]
    if os.environ.get("PVX_NO_OPEN_FINDINGS"):      # debugging aid: check without excluding any known region
        fopen = []

    # number model vs exact fractions (raises on any mismatch).  Runs in a child process: the coordinator must not
    # use z3 itself, because z3's timer threads do not survive fork() and the workers' solver timeouts would stop working
    # (observed: a 1 s work item of C17 ran into its 300 s budget).
    selftest_checks = _selftest_in_child(seed)
    if hasattr(H, "prepare"):
        H.prepare(tier)     # e.g. build the compiled kernels from the working tree

    # known findings: replay their witnesses on the real code
    known_lines = []
    for e in findings:
        if e.get("status") != "open":
            continue
        w = e["witness"]
        failed, cobs, outside, err = run_concrete(H, w["case"], {k: Fraction(v) for k, v in w["values"].items()},
                                                  None, fopen, ignore_findings=True)
        if failed:
            known_lines.append("KNOWN-FINDING: property=%s %s [%s] (witness still fails: %s)"
                               % (prop, e["what"], e["id"], ",".join(sorted(set(failed)))))
        else:
            known_lines.append("NOTE: known finding %s no longer reproduces on this tree (outside=%s err=%s)"
                               % (e["id"], outside, err))
    for ln in known_lines:
        print(ln, flush=True)

    cases = H.cases(tier)
    flt = os.environ.get("PVX_FILTER")       # debugging aid only: restricts the cases (evidence says so)
    if flt:
        for kv in flt.split(","):
            k, v = kv.split("=")
            cases = [c for c in cases if str(c.get(k)) == v]
    rng = np.random.default_rng(seed)
    order = rng.permutation(len(cases))
    tasks = []
    for i in order:
        c = cases[int(i)]
        tasks.append({"harness": harness, "case": c, "opts": opts, "findings_open": fopen,
                      "cut": c.get("_split")})
    canaries = list(getattr(H, "CANARIES", []))
    if tier == "quick":
        nq = getattr(H, "QUICK_CANARIES", 2)
        canaries = canaries[:nq]
    for cn in canaries:
        for c in cn["cases"](tier) if callable(cn["cases"]) else cn["cases"]:
            tasks.append({"harness": harness, "case": c, "opts": opts, "findings_open": fopen,
                          "canary": cn["name"]})
    # heavy first
    tasks.sort(key=lambda t: -t["case"].get("_weight", 0))

    agg = {"stats": {}, "violations": [], "errors": [], "samples": [], "sigs": set(), "nontrivial": set(),
           "reached": {}, "per_case": [], "canary": {cn["name"]: "survived" for cn in canaries},
           "tasks": 0, "witness_skipped_inexact": 0, "witness_skipped_extreme": 0}
    ctxmp = mp.get_context("fork")
    hard_limit = opts["task_budget_s"] + opts.get("grace_s", 120)

    def handle(t, r):
        agg["tasks"] += 1
        cn = t.get("canary")
        for k, v in r.get("stats", {}).items():
            key = ("canary_" + k) if cn else k
            agg["stats"][key] = agg["stats"].get(key, 0) + v
        if cn:
            if any(v.get("reproduced") for v in r["violations"]):
                agg["canary"][cn] = "killed"
            for e in r["errors"]:
                if e["kind"] not in ("budget_exhausted",):
                    e["canary"] = cn
                    agg["errors"].append(e)
            return []
        agg["violations"].extend(r["violations"])
        agg["errors"].extend(r["errors"])
        agg["witness_skipped_inexact"] += r.get("witness_skipped_inexact", 0)
        agg["witness_skipped_extreme"] += r.get("witness_skipped_extreme", 0)
        if len(agg["samples"]) < 6:
            agg["samples"].extend(r["samples"])
        for s_, triv in r["signatures"]:
            agg["sigs"].add(s_)
            if not triv:
                agg["nontrivial"].add(s_)
        for k, v in r["reached"].items():
            agg["reached"][k] = agg["reached"].get(k, 0) + v
        agg["per_case"].append({"case": {k: v for k, v in t["case"].items()},
                                "prefix_depth": len(t["prefix"]) if t.get("prefix") else 0,
                                "paths": r.get("stats", {}).get("paths", 0),
                                "wall_s": r.get("wall_s"), "complete": r.get("complete")})
        new = []
        for pre in r["subtasks"]:
            nt = dict(t)
            nt["prefix"] = pre
            nt["cut"] = None
            new.append(nt)
        return new

    def blank(kind, t, msg, secs):
        return {"errors": [{"kind": kind, "case": t["case"], "error": msg}], "violations": [], "samples": [],
                "signatures": [], "reached": {}, "subtasks": [], "stats": {}, "complete": False, "wall_s": round(secs, 1)}

    def child(conn, task):
        try:
            conn.send(run_task(task))
        except BaseException as e:   # noqa: BLE001
            conn.send(blank("worker_crash", task, repr(e), 0))
        finally:
            conn.close()

    # One process per work item: a solver call that ignores its timeout (observed with z3's nonlinear engine: 25 min
    # on a 60 s limit) can then be killed without losing the other workers.  Killed items make the run inconclusive.
    import multiprocessing.connection as mpc
    queue = list(tasks)
    running = {}     # conn -> (process, task, start time)
    while queue or running:
        while queue and len(running) < jobs:
            t = queue.pop(0)
            pc, cc = ctxmp.Pipe(duplex=False)
            pr = ctxmp.Process(target=child, args=(cc, t), daemon=True)
            pr.start()
            cc.close()
            running[pc] = (pr, t, time.time())
        ready = mpc.wait(list(running), timeout=1.0)
        for pc in ready:
            pr, t, st = running.pop(pc)
            try:
                r = pc.recv()
            except EOFError:
                r = blank("worker_crash", t, "worker died (exit code %s)" % pr.exitcode, time.time() - st)
            pc.close()
            pr.join(timeout=5)
            queue.extend(handle(t, r))
        now = time.time()
        for pc in [c for c, (pr, t, st) in running.items() if now - st > hard_limit]:
            pr, t, st = running.pop(pc)
            pr.kill()
            pr.join(timeout=5)
            pc.close()
            handle(t, blank("worker_timeout", t, "work item exceeded %d s (solver call ignored its timeout)" % hard_limit, now - st))
    wall = time.time() - t0

    # ------------------------------------------------------------------ verdict
    confirmed = [v for v in agg["violations"] if v.get("reproduced")]
    spurious = [v for v in agg["violations"] if not v.get("reproduced")]
    problems = []
    for v in spurious:
        problems.append("counterexample did not reproduce on the real code: %s %s" % (v["label"], v["inputs"]))
    for e in agg["errors"]:
        problems.append("%s: %s" % (e["kind"], json.dumps({k: v for k, v in e.items() if k not in ("kind", "trace")},
                                                          default=str)[:600]))
        if e.get("trace"):
            problems.append(e["trace"][-1500:])
    for name, st in agg["canary"].items():
        if st != "killed":
            problems.append("canary %s was not detected (harness cannot see this mutation)" % name)
    labels = getattr(H, "LABELS", None)
    if labels:
        for lb in labels:
            if not any(k == lb or k.startswith(lb) for k in agg["reached"]):
                problems.append("vacuity: no explored path reached claim %r" % lb)
    if not agg["reached"] and not confirmed:
        problems.append("vacuity: no claim was reached at all")

    os.makedirs(os.path.join(VERIF, "evidence"), exist_ok=True)
    replay_paths = []
    if confirmed:
        os.makedirs(os.path.join(VERIF, "replays"), exist_ok=True)
        for i, v in enumerate(confirmed):
            p = os.path.join(VERIF, "replays", "%s_%s_%d.json" % (prop, tier, i))
            with open(p, "w") as f:
                json.dump({"property": prop, "harness": harness, "violation": v}, f, indent=1, default=str)
            replay_paths.append(p)

    st = agg["stats"]
    paths = int(st.get("paths", 0))
    coverage = {
        "states": paths,
        "transitions": int(st.get("decisions", 0)),
        "traces_validated_against_impl": int(st.get("witness_replays", 0)),
        "samples": agg["samples"][:6] or [{"note": "no completed path"}],
        "evaluations": paths,
        "distinct_nontrivial": len(agg["nontrivial"]),
        "rule": getattr(H, "RULE", "one evaluation = one explored path (a region of the input space with constant "
                        "control flow); distinct = distinct structural output signature; non-trivial by harness rule"),
        "exhaustive": not problems,
        "explanation": getattr(H, "EXPLANATION", ""),
        "functions_encoded": source_hashes(H),
        "bounds": H.bounds(tier) if hasattr(H, "bounds") else {},
        "outside_bounds": getattr(H, "OUTSIDE", ""),
        "solver": {"name": "z3 " + z3.get_version_string(), "queries": int(st.get("queries", 0)),
                   "sat": int(st.get("sat", 0)), "unsat": int(st.get("unsat", 0)),
                   "unknown_at_branch": int(st.get("unknown_branch", 0)),
                   "unknown_at_claim": int(st.get("unknown_claim", 0)),
                   "claim_queries": int(st.get("claim_queries", 0)), "claims": int(st.get("claims", 0)),
                   "implied_decisions": int(st.get("implied", 0)), "decision_cache_hits": int(st.get("cache_hits", 0)),
                   "solver_s": round(float(st.get("solver_s", 0.0)), 2)},
        "claims_reached": agg["reached"],
        "work_items": agg["tasks"],
        "canaries": agg["canary"],
        "canary_paths": int(st.get("canary_paths", 0)),
        "witness_skipped_inexact": agg["witness_skipped_inexact"],
        "witness_skipped_extreme": agg["witness_skipped_extreme"],
        "stubs_and_facades": getattr(H, "STUBS", []),
        "known_findings": known_lines,
        "problems": problems[:20],
        "per_case": sorted(agg["per_case"], key=lambda d: -(d["wall_s"] or 0))[:40],
        "jobs": jobs,
        "number_model_selftest_checks": selftest_checks,
        "case_filter": os.environ.get("PVX_FILTER"),
    }
    evidence = {"property_id": prop, "tier": tier, "seed": int(seed), "level": "model_checking",
                "coverage": coverage, "assumptions": getattr(H, "ASSUMPTIONS", []),
                "wall_s": round(wall, 2), "violations": len(confirmed)}
    with open(os.path.join(VERIF, "evidence", prop + ".json"), "w") as f:
        json.dump(evidence, f, indent=1, default=str)

    print("%s %s: paths=%d decisions=%d queries=%d (unsat %d, sat %d) solver=%.1fs witness_replays=%d "
          "canaries=%s wall=%.1fs" % (prop, tier, paths, coverage["transitions"], coverage["solver"]["queries"],
                                      coverage["solver"]["unsat"], coverage["solver"]["sat"],
                                      coverage["solver"]["solver_s"], coverage["traces_validated_against_impl"],
                                      agg["canary"], wall), flush=True)
    if confirmed:
        for v, p in zip(confirmed, replay_paths):
            print("  violated claim %r on case %s inputs %s" % (v["label"], v["case"], v["inputs_float"]))
            print("VIOLATION property=%s replay=%s" % (prop, p), flush=True)
        return EXIT_VIOLATION
    if problems:
        for p in problems[:30]:
            print("INCONCLUSIVE: " + p, flush=True)
        return EXIT_INCONCLUSIVE
    return EXIT_OK


def replay_file(path):
    with open(path) as f:
        d = json.load(f)
    H = _load(d["harness"])
    if hasattr(H, "prepare"):
        H.prepare("quick")
    v = d["violation"]
    values = {k: Fraction(s) for k, s in v["inputs"].items()}
    findings = load_findings(H.PROPERTY)
    fopen = [e["id"] for e in findings if e.get("status") == "open"]
    failed, cobs, outside, err = run_concrete(H, v["case"], values, None, fopen, v.get("canary"))
    print("case:", v["case"])
    print("inputs:", {k: float(x) for k, x in values.items()})
    print("observed on the real code:", _jsonable(cobs))
    print("failed claims:", failed, "outside assumptions:", outside, "error:", err)
    return EXIT_VIOLATION if failed else EXIT_OK
