"""Symbolic number types executed by the *real* pylife / numpy / pandas code.

SymReal / SymBool carry z3 terms; every operator builds a term, every request
for a concrete truth value (``__bool__``) is a fork handled by the engine
(pvx.engine).  Floats are lifted exactly (Fraction(float)); IEEE specials
(inf / nan) are kept as concrete Python floats and handled per IEEE rule.

Nothing here knows about pylife.
"""
import math
from fractions import Fraction

import numpy as np
import z3


class Unsupported(Exception):
    """The code under test asked for something that has no encoding (reported as inconclusive)."""


_ENGINE = [None]


def engine():
    e = _ENGINE[0]
    if e is None:
        raise RuntimeError("no symbolic engine active")
    return e


def set_engine(e):
    _ENGINE[0] = e


def is_sym(x):
    return isinstance(x, (SymReal, SymBool, LogReal, NegLogReal))


def lift(x):
    """Python / numpy number -> z3 Real term, None for inf/nan, NotImplemented otherwise."""
    if isinstance(x, SymReal):
        return x.e
    if isinstance(x, (bool, np.bool_)):
        return z3.RealVal(1 if x else 0)
    if isinstance(x, (int, np.integer)):
        return z3.RealVal(int(x))
    if isinstance(x, (float, np.floating)):
        x = float(x)
        if math.isinf(x) or math.isnan(x):
            return None
        return z3.RealVal(str(float_fraction(x)))
    if isinstance(x, Fraction):
        return z3.RealVal(str(x))
    if isinstance(x, SymBool):
        return z3.If(x.e, z3.RealVal(1), z3.RealVal(0))
    return NotImplemented


_FRAC_CACHE = {}


def float_fraction(x):
    """the rational a float constant stands for: the simplest fraction (denominator <= 10**9) that
    rounds to exactly this double (0.3 -> 3/10, 1.6666666666666667 -> 5/3), otherwise the exact binary
    value.  Integers and dyadic values are always exact."""
    fr = _FRAC_CACHE.get(x)
    if fr is None:
        exact = Fraction(x)
        fr = exact
        if exact.denominator > 1024:
            for lim in (1000, 10 ** 6, 10 ** 9):
                cand = exact.limit_denominator(lim)
                if float(cand) == x:
                    fr = cand
                    break
        _FRAC_CACHE[x] = fr
    return fr


def _is_const(e):
    return z3.is_rational_value(e) or z3.is_int_value(e)


def _const_value(e):
    if z3.is_int_value(e):
        return Fraction(e.as_long())
    return Fraction(e.numerator_as_long(), e.denominator_as_long())


class SymBool:
    __slots__ = ("e",)

    def __init__(self, e):
        self.e = e

    def __bool__(self):
        return engine().branch(self.e)

    @staticmethod
    def _e(o):
        if isinstance(o, SymBool):
            return o.e
        if isinstance(o, (bool, np.bool_)):
            return z3.BoolVal(bool(o))
        return NotImplemented

    def __and__(self, o):
        oe = SymBool._e(o)
        if oe is NotImplemented:
            return NotImplemented
        return SymBool(z3.simplify(z3.And(self.e, oe)))

    __rand__ = __and__

    def __or__(self, o):
        oe = SymBool._e(o)
        if oe is NotImplemented:
            return NotImplemented
        return SymBool(z3.simplify(z3.Or(self.e, oe)))

    __ror__ = __or__

    def __xor__(self, o):
        oe = SymBool._e(o)
        if oe is NotImplemented:
            return NotImplemented
        return SymBool(z3.simplify(z3.Xor(self.e, oe)))

    __rxor__ = __xor__

    def __invert__(self):
        return SymBool(z3.simplify(z3.Not(self.e)))

    def __eq__(self, o):
        oe = SymBool._e(o)
        if oe is NotImplemented:
            return NotImplemented
        return SymBool(z3.simplify(self.e == oe))

    def __ne__(self, o):
        oe = SymBool._e(o)
        if oe is NotImplemented:
            return NotImplemented
        return SymBool(z3.simplify(self.e != oe))

    def __hash__(self):
        raise TypeError("symbolic bool hashed")

    def __int__(self):
        return int(bool(self))

    def __index__(self):
        return int(bool(self))

    def __float__(self):
        return float(bool(self))

    # numpy-scalar-like conveniences (np.bool_ has them; pylife calls them on results of comparisons)
    def squeeze(self, *a, **kw):
        return self

    def item(self):
        return self

    def all(self, *a, **kw):
        return self

    def any(self, *a, **kw):
        return self

    def __repr__(self):
        return "SymBool(%s)" % (self.e,)


def sym_and(*xs):
    es = []
    for x in xs:
        if isinstance(x, SymBool):
            es.append(x.e)
        elif not bool(x):
            return False
    if not es:
        return True
    return SymBool(z3.simplify(z3.And(*es)))


def sym_or(*xs):
    es = []
    for x in xs:
        if isinstance(x, SymBool):
            es.append(x.e)
        elif bool(x):
            return True
    if not es:
        return False
    return SymBool(z3.simplify(z3.Or(*es)))


def sym_not(x):
    if isinstance(x, SymBool):
        return ~x
    return not bool(x)


def sym_implies(a, b):
    return sym_or(sym_not(a), b)


class _Cmp:
    def __init__(self, f, sign, at_pinf, at_ninf):
        self.f = f            # on z3 terms
        self.sign = sign      # on (pos, neg, zero) predicates of self - other
        self.at_pinf = at_pinf  # result of  self <op> +inf
        self.at_ninf = at_ninf  # result of  self <op> -inf


LT = _Cmp(lambda a, b: a < b, lambda p, n, z: n, True, False)
LE = _Cmp(lambda a, b: a <= b, lambda p, n, z: z3.Or(n, z), True, False)
GT = _Cmp(lambda a, b: a > b, lambda p, n, z: p, False, True)
GE = _Cmp(lambda a, b: a >= b, lambda p, n, z: z3.Or(p, z), False, True)
EQ = _Cmp(lambda a, b: a == b, lambda p, n, z: z, False, False)
NE = _Cmp(lambda a, b: a != b, lambda p, n, z: z3.Not(z), True, True)


def _poly(t):
    return z3.simplify(t, som=True)


def _same(a, b):
    return a is b or a.eq(b)


def _mono(u, atoms):
    """monomial u -> (Fraction coefficient, {atom id: power}) or None"""
    if _is_const(u):
        return _const_value(u), {}
    if z3.is_app(u):
        k = u.decl().kind()
        if k == z3.Z3_OP_MUL:
            coef, pw = Fraction(1), {}
            for c in u.children():
                r = _mono(c, atoms)
                if r is None:
                    return None
                coef *= r[0]
                for i, p in r[1].items():
                    pw[i] = pw.get(i, 0) + p
            return coef, pw
        if k == z3.Z3_OP_UMINUS:
            r = _mono(u.arg(0), atoms)
            return None if r is None else (-r[0], r[1])
        if k == z3.Z3_OP_POWER:
            b, ex = u.arg(0), u.arg(1)
            if _is_const(ex) and _const_value(ex).denominator == 1 and _const_value(ex) >= 1:
                r = _mono(b, atoms)
                if r is None or r[0] != 1:
                    return None
                return Fraction(1), {i: p * int(_const_value(ex)) for i, p in r[1].items()}
            return None
        if k in (z3.Z3_OP_ADD, z3.Z3_OP_SUB):
            return None
    atoms[u.get_id()] = u
    return Fraction(1), {u.get_id(): 1}


def _poly_terms(t, atoms):
    """sum-of-monomials term -> {monomial key: Fraction} or None"""
    parts = t.children() if (z3.is_app(t) and t.decl().kind() == z3.Z3_OP_ADD) else [t]
    out = {}
    for u in parts:
        r = _mono(u, atoms)
        if r is None:
            return None
        key = tuple(sorted(r[1].items()))
        out[key] = out.get(key, Fraction(0)) + r[0]
    return {k: v for k, v in out.items() if v != 0}


def _poly_build(terms, atoms):
    acc = None
    for key, coef in sorted(terms.items(), key=lambda kv: repr(kv[0])):
        t = z3.RealVal(str(coef))
        for i, pw in key:
            for _ in range(pw):
                t = t * atoms[i]
        acc = t if acc is None else acc + t
    return z3.simplify(acc if acc is not None else z3.RealVal(0), som=True)


def _is_linear(t):
    """cheap syntactic test: polynomial of total degree <= 1 in atoms that are plain variables"""
    atoms = {}
    p = _poly_terms(z3.simplify(t, som=True), atoms)
    if p is None:
        return False
    for key in p:
        if sum(pw for _i, pw in key) > 1:
            return False
    return all(z3.is_const(a) or (z3.is_app(a) and a.decl().kind() == z3.Z3_OP_TO_REAL) for a in atoms.values())


def _mk(n, d):
    """normalised quotient n/d (d known non-zero on the current path): constant denominators are
    divided out, proportional polynomials give a constant, common monomial factors are cancelled"""
    if d is None:
        return SymReal(z3.simplify(n))
    n, d = _poly(n), _poly(d)
    if _is_const(d):
        return SymReal(z3.simplify(n / d))
    if _is_const(n) and _const_value(n) == 0:
        return SymReal(z3.RealVal(0))
    if _same(n, d):
        return SymReal(z3.RealVal(1))
    atoms = {}
    pn, pd_ = _poly_terms(n, atoms), _poly_terms(d, atoms)
    if pn and pd_:
        if pn.keys() == pd_.keys():
            ratios = {pn[k] / pd_[k] for k in pn}
            if len(ratios) == 1:
                return SymReal(z3.RealVal(str(ratios.pop())))
        # common monomial factor (a variable present in every monomial of n and d)
        allkeys = list(pn) + list(pd_)
        common = dict(allkeys[0])
        for key in allkeys[1:]:
            kd = dict(key)
            common = {i: min(p, kd[i]) for i, p in common.items() if i in kd}
        lead = pd_[sorted(pd_, key=repr)[0]]
        if common or lead != 1:
            def strip(terms):
                out = {}
                for key, c in terms.items():
                    kd = dict(key)
                    for i, p in common.items():
                        kd[i] -= p
                    out[tuple(sorted((i, p) for i, p in kd.items() if p > 0))] = c / lead
                return out
            n, d = _poly_build(strip(pn), atoms), _poly_build(strip(pd_), atoms)
            if _is_const(d):
                return SymReal(z3.simplify(n / d))
    return SymReal(None, n=n, d=d)


# ---------------------------------------------------------------------------
# integer mode: when every symbolic input is an integer (ToReal of an Int constant), comparisons between
# integer-valued terms that differ by a fractional constant (the +-1e-12 tolerances of the HCM code) are
# rewritten to pure integer comparisons, so that the solver works in linear integer arithmetic only.

_INT_CMP_CACHE = {}


def _to_int_term(t):
    """Real-sorted integer-valued term -> Int-sorted term, or None"""
    if z3.is_int_value(t):
        return t
    if z3.is_rational_value(t):
        v = _const_value(t)
        return z3.IntVal(int(v)) if v.denominator == 1 else None
    if not z3.is_app(t):
        return None
    k = t.decl().kind()
    if k == z3.Z3_OP_TO_REAL:
        return t.arg(0)
    if t.sort() == z3.IntSort():
        return t
    if k in (z3.Z3_OP_ADD, z3.Z3_OP_SUB, z3.Z3_OP_MUL):
        args = [_to_int_term(c) for c in t.children()]
        if any(a is None for a in args):
            return None
        if k == z3.Z3_OP_MUL and sum(0 if z3.is_int_value(a) else 1 for a in args) > 1:
            return None
        r = args[0]
        for a in args[1:]:
            r = (r + a) if k == z3.Z3_OP_ADD else ((r - a) if k == z3.Z3_OP_SUB else (r * a))
        return r
    if k == z3.Z3_OP_UMINUS:
        a = _to_int_term(t.arg(0))
        return None if a is None else -a
    if k == z3.Z3_OP_ITE:
        a, b = _to_int_term(t.arg(1)), _to_int_term(t.arg(2))
        if a is None or b is None:
            return None
        return z3.If(t.arg(0), a, b)
    return None


def _int_compare(op, diff):
    """truth of  diff <op> 0  for diff = (integer-valued term) + (rational constant), as an Int-sorted
    comparison; None if diff does not have that shape"""
    diff = z3.simplify(diff, som=True)
    parts = diff.children() if (z3.is_app(diff) and diff.decl().kind() == z3.Z3_OP_ADD) else [diff]
    c = Fraction(0)
    rest = []
    for u in parts:
        if _is_const(u):
            c += _const_value(u)
        else:
            rest.append(u)
    if not rest:
        return None
    ints = [_to_int_term(u) for u in rest]
    if any(i is None for i in ints):
        return None
    D = ints[0]
    for i in ints[1:]:
        D = D + i
    mc = -c                                  # D + c <op> 0   <=>   D <op> -c
    fl, ce = math.floor(mc), math.ceil(mc)
    if op is LT:
        return D < ce                        # D < mc  <=>  D <= ceil(mc) - 1
    if op is LE:
        return D <= fl
    if op is GT:
        return D > fl
    if op is GE:
        return D >= ce
    if op is EQ:
        return (D == fl) if fl == ce else z3.BoolVal(False)
    if op is NE:
        return (D != fl) if fl == ce else z3.BoolVal(True)
    return None


def _sign_pred(op, n, d):
    """truth of  n/d <op> 0  as a term without division (d != 0 on the path)"""
    if d is None:
        return op.f(n, z3.RealVal(0))
    pos = z3.Or(z3.And(n > 0, d > 0), z3.And(n < 0, d < 0))
    neg = z3.Or(z3.And(n > 0, d < 0), z3.And(n < 0, d > 0))
    zero = (n == 0)
    return op.sign(pos, neg, zero)


class SymReal:
    """A real number given by a z3 term `e`, or by a quotient n/d of two terms whose denominator is
    known to be non-zero on the current path (division of symbolic values).  Quotients are kept as
    pairs so that comparisons and equalities can be decided without division (sign logic over
    numerator and denominator).  `factors` remembers a*b for the product-sign rewrite."""
    __slots__ = ("_e", "factors", "n", "d")

    def __init__(self, e, factors=None, n=None, d=None):
        self._e = e
        self.factors = factors
        self.n = n
        self.d = d

    @property
    def e(self):
        if self._e is None:
            self._e = z3.simplify(self.n / self.d)
        return self._e

    def _nd(self):
        return (self.n, self.d) if self.d is not None else (self._e, None)

    # -- arithmetic -------------------------------------------------------
    def _special(self, o, kind, swap):
        # o is +-inf or nan (concrete float)
        if math.isnan(o):
            return o
        if kind in ("add",):
            return o
        if kind == "sub":
            return o if swap else -o
        if kind == "mul":
            if self > 0:
                return o
            if self < 0:
                return -o
            return float("nan")
        raise Unsupported("operation %s with %r" % (kind, o))

    def _operand(self, o):
        """-> (n, d) of the other operand, None for inf/nan, NotImplemented"""
        if isinstance(o, LogReal):
            return NotImplemented
        if isinstance(o, SymReal):
            return o._nd()
        oe = lift(o)
        if oe is NotImplemented or oe is None:
            return oe
        return (oe, None)

    def _addsub(self, o, sgn, swap):
        op = self._operand(o)
        if op is NotImplemented:
            return NotImplemented
        if op is None:
            return self._special(float(o), "add" if sgn > 0 else "sub", swap)
        (n1, d1), (n2, d2) = self._nd(), op
        if swap:
            (n1, d1), (n2, d2) = (n2, d2), (n1, d1)
        if d1 is None and d2 is None:
            return SymReal(z3.simplify(n1 + n2 if sgn > 0 else n1 - n2))
        if d1 is None:
            n1, d1 = n1 * d2, d2
        elif d2 is None:
            n2, d2 = n2 * d1, d1
        elif not _same(d1, d2):
            n1, n2, d1 = n1 * d2, n2 * d1, d1 * d2
        return _mk(n1 + n2 if sgn > 0 else n1 - n2, d1)

    def __add__(self, o):
        return self._addsub(o, 1, False)

    def __radd__(self, o):
        return self._addsub(o, 1, True)

    def __sub__(self, o):
        return self._addsub(o, -1, False)

    def __rsub__(self, o):
        return self._addsub(o, -1, True)

    def __mul__(self, o):
        op = self._operand(o)
        if op is NotImplemented:
            return NotImplemented
        if op is None:
            return self._special(float(o), "mul", False)
        (n1, d1), (n2, d2) = self._nd(), op
        if d1 is None and d2 is None:
            if not _is_const(n1) and not _is_const(n2):
                return SymReal(z3.simplify(n1 * n2), factors=(n1, n2))
            return SymReal(z3.simplify(n1 * n2))
        # cancel syntactically equal numerator/denominator
        if d1 is not None and _same(n2, d1):
            return _mk(n1, d2)
        if d2 is not None and _same(n1, d2):
            return _mk(n2, d1)
        d = d1 if d2 is None else (d2 if d1 is None else d1 * d2)
        return _mk(n1 * n2, d)

    __rmul__ = __mul__

    def __truediv__(self, o):
        op = self._operand(o)
        if op is NotImplemented:
            return NotImplemented
        if op is None:
            o = float(o)
            return float("nan") if math.isnan(o) else 0.0
        return _div(self, op)

    def __rtruediv__(self, o):
        oe = lift(o)
        if oe is NotImplemented:
            return NotImplemented
        if oe is None:
            o = float(o)
            if math.isnan(o):
                return o
            # inf / x : sign of x decides; inf/0 = inf (IEEE, +0)
            if self >= 0:
                return o
            return -o
        return _div(SymReal(oe), self._nd())

    def __floordiv__(self, o):
        raise Unsupported("floor division of a symbolic real")

    __rfloordiv__ = __floordiv__
    __mod__ = __floordiv__
    __rmod__ = __floordiv__

    def __pow__(self, o):
        if isinstance(o, (int, float, np.integer, np.floating)) and float(o).is_integer() and abs(o) <= 24:
            k = int(o)
            if k == 0:
                return 1.0
            if k > 0:
                r = self
                for _ in range(k - 1):
                    r = r * self
                return r
            return 1 / (self ** (-k))
        if isinstance(o, (float, np.floating)) and float(o) == 0.5:
            return self.sqrt()
        return engine().power(self, o)

    def __rpow__(self, o):
        return engine().power(o, self)

    def sqrt(self):
        eng = engine()
        if self < 0:
            return float("nan")
        if _is_const(self.e):
            v = _const_value(self.e)
            r = Fraction(math.isqrt(v.numerator), 1) / Fraction(math.isqrt(v.denominator), 1)
            if r * r == v:
                return SymReal(z3.RealVal(str(r)))
        # sqrt is a function: the same argument term gives the same root symbol within a run
        key = ("sqrt", self.e.get_id())
        hit = eng.fn_cache.get(key)
        if hit is not None:
            return SymReal(hit[1])
        r = eng.fresh_real("sqrt")
        if self.d is not None:
            eng.define(z3.And(r >= 0, r * r * self.d == self.n))
        else:
            eng.define(z3.And(r >= 0, r * r == self.e))
        eng.fn_cache[key] = (self.e, r)
        return SymReal(r)

    def __neg__(self):
        if self.d is not None:
            return _mk(-self.n, self.d)
        return SymReal(z3.simplify(-self._e))

    def __pos__(self):
        return self

    def __abs__(self):
        eng = engine()
        if self.d is not None:
            n, d = self.n, self.d
            sn = eng.implied(n >= 0) if _is_linear(n) else None
            sd = eng.implied(d >= 0) if _is_linear(d) else None
            n2 = n if sn is True else (-n if sn is False else z3.If(n >= 0, n, -n))
            d2 = d if sd is True else (-d if sd is False else z3.If(d >= 0, d, -d))
            return _mk(n2, d2) if (sn is not None and sd is not None) else SymReal(None, n=z3.simplify(n2), d=z3.simplify(d2))
        s = eng.implied(self._e >= 0) if _is_linear(self._e) else None
        if s is True:
            return self
        if s is False:
            return SymReal(z3.simplify(-self._e))
        return SymReal(z3.simplify(z3.If(self._e >= 0, self._e, -self._e)))

    # -- comparisons -------------------------------------------------------
    def _cmp(self, o, op):
        other = self._operand(o)
        if other is NotImplemented:
            return NotImplemented
        if other is None:
            o = float(o)
            if math.isnan(o):
                return op is NE
            return op.at_pinf if o > 0 else op.at_ninf
        n2, d2 = other
        if self.d is None and d2 is None:
            oe = n2
            if self.factors is not None and _is_const(oe) and _const_value(oe) == 0:
                a, b = self.factors
                pos = z3.Or(z3.And(a > 0, b > 0), z3.And(a < 0, b < 0))
                neg = z3.Or(z3.And(a > 0, b < 0), z3.And(a < 0, b > 0))
                zero = z3.Or(a == 0, b == 0)
                return SymBool(z3.simplify(op.sign(pos, neg, zero)))
            if _ENGINE[0] is not None and getattr(_ENGINE[0], "int_mode", False):
                # the same comparisons recur in every re-execution: memoise on the (hash-consed) operand terms
                key = (id(op), self._e.get_id(), oe.get_id())
                hit = _INT_CMP_CACHE.get(key)
                if hit is None:
                    r = _int_compare(op, self._e - oe)
                    if len(_INT_CMP_CACHE) > 300000:
                        _INT_CMP_CACHE.clear()
                    hit = _INT_CMP_CACHE[key] = (None if r is None else z3.simplify(r), self._e, oe)
                if hit[0] is not None:
                    return SymBool(hit[0])
            return SymBool(z3.simplify(op.f(self._e, oe)))
        diff = self._addsub(o, -1, False)
        n, d = diff._nd()
        return SymBool(z3.simplify(_sign_pred(op, n, d)))

    def __lt__(self, o):
        return self._cmp(o, LT)

    def __le__(self, o):
        return self._cmp(o, LE)

    def __gt__(self, o):
        return self._cmp(o, GT)

    def __ge__(self, o):
        return self._cmp(o, GE)

    def __eq__(self, o):
        return self._cmp(o, EQ)

    def __ne__(self, o):
        return self._cmp(o, NE)

    def __bool__(self):
        return bool(self != 0)

    # -- no silent concretisation -----------------------------------------
    def __hash__(self):
        raise TypeError("symbolic real hashed")

    def __float__(self):
        raise TypeError("concretisation of a symbolic real requested (__float__)")

    def __int__(self):
        # truncation towards zero decided by forks (numpy's astype(intp) on a computed class number); bounded search
        if self >= 0:
            for k in range(64):
                if self < k + 1:
                    return k
        else:
            for k in range(64):
                if self > -(k + 1):
                    return -k
        raise Unsupported("int() of a symbolic real beyond +-64")

    def __index__(self):
        raise TypeError("concretisation of a symbolic real requested (__index__)")

    def __round__(self, n=None):
        raise Unsupported("round() of a symbolic real")

    def __repr__(self):
        if self.d is not None:
            return "S((%s)/(%s))" % (self.n, self.d)
        return "S(%s)" % (self._e,)

    # -- hooks used by numpy object loops ----------------------------------
    def sign(self):
        if self > 0:
            return 1.0
        if self < 0:
            return -1.0
        return 0.0

    def fabs(self):
        return abs(self)

    def conjugate(self):
        return self

    def astype(self, t):
        return self

    def item(self):
        return self

    def squeeze(self):
        return self

    def __getitem__(self, key):
        a = np.empty((), dtype=object)
        a[()] = self
        return a[key]

    def log10(self):
        return engine().log10(self)

    def isfinite(self):
        return True

    def isnan(self):
        return False

    def isinf(self):
        return False


def _div(x, den):
    """x / (n2/d2) with IEEE behaviour for a zero divisor; x is a SymReal, den = (n2, d2)"""
    eng = engine()
    n2, d2 = den
    if _is_const(n2):
        zero = (_const_value(n2) == 0)
    else:
        zero = eng.branch(n2 == 0)
    if zero:
        if x > 0:
            return float("inf")
        if x < 0:
            return float("-inf")
        return float("nan")
    n1, d1 = x._nd()
    if d1 is None and d2 is None and _is_const(n2):
        return SymReal(z3.simplify(n1 / n2))
    # (n1/d1) / (n2/d2) = (n1*d2) / (d1*n2)
    if d1 is not None and d2 is not None and _same(d1, d2):
        return _mk(n1, n2)
    num = n1 if d2 is None else n1 * d2
    dd = n2 if d1 is None else d1 * n2
    return _mk(num, dd)


class LogReal:
    """The positive real 10**e (e a z3 Real term): exact arithmetic for power laws."""
    __slots__ = ("e",)

    def __init__(self, e):
        self.e = e

    @staticmethod
    def of(x):
        """exponent term of a positive quantity, or None (not positive / not representable)"""
        if isinstance(x, LogReal):
            return x.e
        if isinstance(x, (int, float, np.integer, np.floating)) and not isinstance(x, (bool, np.bool_)):
            x = float(x)
            if x > 0 and math.isfinite(x):
                return engine().log_const(x)
        return None

    def _mul(self, o, sgn):
        oe = LogReal.of(o)
        if oe is None:
            if isinstance(o, (int, float, np.integer, np.floating)):
                o = float(o)
                if o == 0 and sgn > 0:
                    return 0.0
                if math.isinf(o) and o > 0:
                    return o if sgn > 0 else 0.0
            if isinstance(o, (SymReal,)):
                raise Unsupported("LogReal * SymReal")
            return NotImplemented
        return LogReal(z3.simplify(self.e + oe if sgn > 0 else self.e - oe))

    def __mul__(self, o):
        return self._mul(o, 1)

    __rmul__ = __mul__

    def __truediv__(self, o):
        return self._mul(o, -1)

    def __rtruediv__(self, o):
        oe = LogReal.of(o)
        if oe is None:
            if isinstance(o, (int, float)) and float(o) == 0:
                return 0.0
            return NotImplemented
        return LogReal(z3.simplify(oe - self.e))

    def __pow__(self, k):
        ke = lift(k)
        if ke is NotImplemented:
            return NotImplemented
        if ke is None:
            k = float(k)
            if math.isnan(k):
                return k
            # x**(+-inf): depends on x vs 1
            eng = engine()
            big = (k > 0)
            if eng.branch(self.e > 0):
                return float("inf") if big else 0.0
            if eng.branch(self.e < 0):
                return 0.0 if big else float("inf")
            return 1.0
        if isinstance(k, SymReal) and not _is_const(k.e):
            return LogReal(z3.simplify(self.e * ke))
        return LogReal(z3.simplify(self.e * ke))

    def __rpow__(self, base):
        raise Unsupported("number ** LogReal")

    def __neg__(self):
        return NegLogReal(self)

    def __pos__(self):
        return self

    def __abs__(self):
        return self

    def __add__(self, o):
        if isinstance(o, (int, float)) and float(o) == 0:
            return self
        raise Unsupported("LogReal + x")

    __radd__ = __add__

    def __sub__(self, o):
        if isinstance(o, (int, float)) and float(o) == 0:
            return self
        raise Unsupported("LogReal - x")

    def __rsub__(self, o):
        raise Unsupported("x - LogReal")

    def _cmp(self, o, op):
        oe = LogReal.of(o)
        if oe is None:
            if isinstance(o, (int, float, np.integer, np.floating)):
                o = float(o)
                if math.isnan(o):
                    return op is NE
                if o <= 0:       # self > 0 >= o
                    return op in (GT, GE, NE)
                if math.isinf(o):
                    return op in (LT, LE, NE)
            return NotImplemented
        return SymBool(z3.simplify(op.f(self.e, oe)))

    def __lt__(self, o):
        return self._cmp(o, LT)

    def __le__(self, o):
        return self._cmp(o, LE)

    def __gt__(self, o):
        return self._cmp(o, GT)

    def __ge__(self, o):
        return self._cmp(o, GE)

    def __eq__(self, o):
        return self._cmp(o, EQ)

    def __ne__(self, o):
        return self._cmp(o, NE)

    def __bool__(self):
        return True

    def __hash__(self):
        raise TypeError("symbolic (log) real hashed")

    def __float__(self):
        raise TypeError("concretisation of a symbolic (log) real requested")

    def log10(self):
        return SymReal(self.e)

    def __getitem__(self, key):
        a = np.empty((), dtype=object)
        a[()] = self
        return a[key]

    def sqrt(self):
        return LogReal(z3.simplify(self.e / 2))

    def sign(self):
        return 1.0

    def fabs(self):
        return self

    def conjugate(self):
        return self

    def item(self):
        return self

    def astype(self, t):
        return self

    def __repr__(self):
        return "L(10**(%s))" % (self.e,)


class NegLogReal:
    """-(10**e): only what pylife needs from a negated positive quantity (ordering, negation)"""
    __slots__ = ("pos",)

    def __init__(self, pos):
        self.pos = pos

    def __neg__(self):
        return self.pos

    def _cmp(self, o, op):
        if isinstance(o, NegLogReal):
            # -a <op> -b   <=>   b <op> a
            return o.pos._cmp(self.pos, op)
        if isinstance(o, (int, float, np.integer, np.floating)) and not isinstance(o, (bool, np.bool_)):
            o = float(o)
            if math.isnan(o):
                return op is NE
            if o >= 0:
                return op in (LT, LE, NE)
            r = self.pos._cmp(-o, {LT: GT, LE: GE, GT: LT, GE: LE, EQ: EQ, NE: NE}[op])
            return r
        if isinstance(o, LogReal):
            return op in (LT, LE, NE)
        return NotImplemented

    def __lt__(self, o):
        return self._cmp(o, LT)

    def __le__(self, o):
        return self._cmp(o, LE)

    def __gt__(self, o):
        return self._cmp(o, GT)

    def __ge__(self, o):
        return self._cmp(o, GE)

    def __eq__(self, o):
        return self._cmp(o, EQ)

    def __ne__(self, o):
        return self._cmp(o, NE)

    def __hash__(self):
        raise TypeError("symbolic value hashed")

    def __repr__(self):
        return "-%r" % (self.pos,)


# ---------------------------------------------------------------------------
# generic helpers used by harnesses and oracles (work for floats and symbols)

def s_abs(x):
    return abs(x)


def s_eq(a, b):
    """equality of two scalars as SymBool / bool; nan == nan counts as equal (same missing marker)."""
    if isinstance(a, (float, np.floating)) and isinstance(b, (float, np.floating)):
        if math.isnan(a) and math.isnan(b):
            return True
    r = (a == b)
    if isinstance(r, (SymBool, bool, np.bool_)):
        return r
    raise TypeError("cannot compare %r and %r" % (a, b))


def s_all_eq(xs, ys):
    """element-wise equality of two equally long sequences as one SymBool / bool"""
    if len(xs) != len(ys):
        return False
    return sym_and(*[s_eq(a, b) for a, b in zip(xs, ys)])


def s_ite(c, a, b):
    """if-then-else without forking (values must be SymReal or numbers)"""
    if isinstance(c, SymBool):
        ae, be = lift(a), lift(b)
        if ae is None or be is None or ae is NotImplemented or be is NotImplemented:
            return a if bool(c) else b
        return SymReal(z3.simplify(z3.If(c.e, ae, be)))
    return a if c else b


def s_max(a, b):
    return s_ite(a >= b, a, b)


def s_min(a, b):
    return s_ite(a <= b, a, b)
