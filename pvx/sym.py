"""Symbolic number types executed by the *real* pylife / numpy / pandas code.

SymReal / SymBool carry z3 terms; every operator builds a term, every request
for a concrete truth value (``__bool__``) is a fork handled by the engine
(pvx.engine).  Floats are lifted exactly (Fraction(float)); IEEE specials
(inf / nan) are kept as concrete Python floats and handled per IEEE rule.

Nothing here knows about pylife.
"""
import math
from fractions import Fraction

import numpy as np
import z3


class Unsupported(Exception):
    """The code under test asked for something that has no encoding (reported as inconclusive)."""


_ENGINE = [None]


def engine():
    e = _ENGINE[0]
    if e is None:
        raise RuntimeError("no symbolic engine active")
    return e


def set_engine(e):
    _ENGINE[0] = e


def is_sym(x):
    return isinstance(x, (SymReal, SymBool, LogReal))


def lift(x):
    """Python / numpy number -> z3 Real term, None for inf/nan, NotImplemented otherwise."""
    if isinstance(x, SymReal):
        return x.e
    if isinstance(x, (bool, np.bool_)):
        return z3.RealVal(1 if x else 0)
    if isinstance(x, (int, np.integer)):
        return z3.RealVal(int(x))
    if isinstance(x, (float, np.floating)):
        x = float(x)
        if math.isinf(x) or math.isnan(x):
            return None
        fr = Fraction(x)
        return z3.RealVal(str(fr))
    if isinstance(x, Fraction):
        return z3.RealVal(str(x))
    if isinstance(x, SymBool):
        return z3.If(x.e, z3.RealVal(1), z3.RealVal(0))
    return NotImplemented


def _is_const(e):
    return z3.is_rational_value(e) or z3.is_int_value(e)


def _const_value(e):
    if z3.is_int_value(e):
        return Fraction(e.as_long())
    return Fraction(e.numerator_as_long(), e.denominator_as_long())


class SymBool:
    __slots__ = ("e",)

    def __init__(self, e):
        self.e = e

    def __bool__(self):
        return engine().branch(self.e)

    @staticmethod
    def _e(o):
        if isinstance(o, SymBool):
            return o.e
        if isinstance(o, (bool, np.bool_)):
            return z3.BoolVal(bool(o))
        return NotImplemented

    def __and__(self, o):
        oe = SymBool._e(o)
        if oe is NotImplemented:
            return NotImplemented
        return SymBool(z3.simplify(z3.And(self.e, oe)))

    __rand__ = __and__

    def __or__(self, o):
        oe = SymBool._e(o)
        if oe is NotImplemented:
            return NotImplemented
        return SymBool(z3.simplify(z3.Or(self.e, oe)))

    __ror__ = __or__

    def __xor__(self, o):
        oe = SymBool._e(o)
        if oe is NotImplemented:
            return NotImplemented
        return SymBool(z3.simplify(z3.Xor(self.e, oe)))

    __rxor__ = __xor__

    def __invert__(self):
        return SymBool(z3.simplify(z3.Not(self.e)))

    def __eq__(self, o):
        oe = SymBool._e(o)
        if oe is NotImplemented:
            return NotImplemented
        return SymBool(z3.simplify(self.e == oe))

    def __ne__(self, o):
        oe = SymBool._e(o)
        if oe is NotImplemented:
            return NotImplemented
        return SymBool(z3.simplify(self.e != oe))

    def __hash__(self):
        raise TypeError("symbolic bool hashed")

    def __int__(self):
        return int(bool(self))

    def __index__(self):
        return int(bool(self))

    def __float__(self):
        return float(bool(self))

    def __repr__(self):
        return "SymBool(%s)" % (self.e,)


def sym_and(*xs):
    es = []
    for x in xs:
        if isinstance(x, SymBool):
            es.append(x.e)
        elif not bool(x):
            return False
    if not es:
        return True
    return SymBool(z3.simplify(z3.And(*es)))


def sym_or(*xs):
    es = []
    for x in xs:
        if isinstance(x, SymBool):
            es.append(x.e)
        elif bool(x):
            return True
    if not es:
        return False
    return SymBool(z3.simplify(z3.Or(*es)))


def sym_not(x):
    if isinstance(x, SymBool):
        return ~x
    return not bool(x)


def sym_implies(a, b):
    return sym_or(sym_not(a), b)


class _Cmp:
    def __init__(self, f, sign, at_pinf, at_ninf):
        self.f = f            # on z3 terms
        self.sign = sign      # on (pos, neg, zero) predicates of self - other
        self.at_pinf = at_pinf  # result of  self <op> +inf
        self.at_ninf = at_ninf  # result of  self <op> -inf


LT = _Cmp(lambda a, b: a < b, lambda p, n, z: n, True, False)
LE = _Cmp(lambda a, b: a <= b, lambda p, n, z: z3.Or(n, z), True, False)
GT = _Cmp(lambda a, b: a > b, lambda p, n, z: p, False, True)
GE = _Cmp(lambda a, b: a >= b, lambda p, n, z: z3.Or(p, z), False, True)
EQ = _Cmp(lambda a, b: a == b, lambda p, n, z: z, False, False)
NE = _Cmp(lambda a, b: a != b, lambda p, n, z: z3.Not(z), True, True)


class SymReal:
    """A real number given by a z3 term.  `factors` remembers a*b for the sign rewrite."""
    __slots__ = ("e", "factors")

    def __init__(self, e, factors=None):
        self.e = e
        self.factors = factors

    # -- arithmetic -------------------------------------------------------
    def _special(self, o, kind, swap):
        # o is +-inf or nan (concrete float)
        if math.isnan(o):
            return o
        if kind in ("add",):
            return o
        if kind == "sub":
            return o if swap else -o
        if kind == "mul":
            eng = engine()
            if eng.branch(self.e > 0):
                return o
            if eng.branch(self.e < 0):
                return -o
            return float("nan")
        raise Unsupported("operation %s with %r" % (kind, o))

    def _bin(self, o, f, kind, swap=False):
        if isinstance(o, LogReal):
            return NotImplemented
        oe = lift(o)
        if oe is NotImplemented:
            return NotImplemented
        if oe is None:
            return self._special(float(o), kind, swap)
        return SymReal(z3.simplify(f(oe, self.e) if swap else f(self.e, oe)))

    def __add__(self, o):
        return self._bin(o, lambda a, b: a + b, "add")

    def __radd__(self, o):
        return self._bin(o, lambda a, b: a + b, "add", True)

    def __sub__(self, o):
        return self._bin(o, lambda a, b: a - b, "sub")

    def __rsub__(self, o):
        return self._bin(o, lambda a, b: a - b, "sub", True)

    def __mul__(self, o):
        if isinstance(o, SymReal) and not _is_const(o.e) and not _is_const(self.e):
            return SymReal(z3.simplify(self.e * o.e), factors=(self.e, o.e))
        return self._bin(o, lambda a, b: a * b, "mul")

    def __rmul__(self, o):
        return self._bin(o, lambda a, b: a * b, "mul", True)

    def __truediv__(self, o):
        if isinstance(o, LogReal):
            return NotImplemented
        oe = lift(o)
        if oe is NotImplemented:
            return NotImplemented
        if oe is None:
            o = float(o)
            return float("nan") if math.isnan(o) else 0.0
        return _div(self.e, oe)

    def __rtruediv__(self, o):
        oe = lift(o)
        if oe is NotImplemented:
            return NotImplemented
        if oe is None:
            o = float(o)
            if math.isnan(o):
                return o
            eng = engine()
            # inf / x : sign of x decides; inf/0 = inf (IEEE, +0)
            if eng.branch(self.e >= 0):
                return o
            return -o
        return _div(oe, self.e)

    def __floordiv__(self, o):
        raise Unsupported("floor division of a symbolic real")

    __rfloordiv__ = __floordiv__
    __mod__ = __floordiv__
    __rmod__ = __floordiv__

    def __pow__(self, o):
        if isinstance(o, (int, float, np.integer, np.floating)) and float(o).is_integer() and abs(o) <= 8:
            k = int(o)
            if k == 0:
                return 1.0
            if k > 0:
                r = self
                for _ in range(k - 1):
                    r = r * self
                return r
            return 1 / (self ** (-k))
        if isinstance(o, (float, np.floating)) and float(o) == 0.5:
            return self.sqrt()
        return engine().power(self, o)

    def __rpow__(self, o):
        return engine().power(o, self)

    def sqrt(self):
        eng = engine()
        if eng.branch(self.e < 0):
            return float("nan")
        if _is_const(self.e):
            v = _const_value(self.e)
            r = Fraction(math.isqrt(v.numerator), 1) / Fraction(math.isqrt(v.denominator), 1)
            if r * r == v:
                return SymReal(z3.RealVal(str(r)))
        r = eng.fresh_real("sqrt")
        eng.define(z3.And(r >= 0, r * r == self.e))
        return SymReal(r)

    def __neg__(self):
        return SymReal(z3.simplify(-self.e))

    def __pos__(self):
        return self

    def __abs__(self):
        return SymReal(z3.simplify(z3.If(self.e >= 0, self.e, -self.e)))

    # -- comparisons -------------------------------------------------------
    def _cmp(self, o, op):
        if isinstance(o, LogReal):
            return NotImplemented
        oe = lift(o)
        if oe is NotImplemented:
            return NotImplemented
        if oe is None:
            o = float(o)
            if math.isnan(o):
                return op is NE
            return op.at_pinf if o > 0 else op.at_ninf
        if self.factors is not None and _is_const(oe) and _const_value(oe) == 0:
            a, b = self.factors
            pos = z3.Or(z3.And(a > 0, b > 0), z3.And(a < 0, b < 0))
            neg = z3.Or(z3.And(a > 0, b < 0), z3.And(a < 0, b > 0))
            zero = z3.Or(a == 0, b == 0)
            return SymBool(z3.simplify(op.sign(pos, neg, zero)))
        return SymBool(z3.simplify(op.f(self.e, oe)))

    def __lt__(self, o):
        return self._cmp(o, LT)

    def __le__(self, o):
        return self._cmp(o, LE)

    def __gt__(self, o):
        return self._cmp(o, GT)

    def __ge__(self, o):
        return self._cmp(o, GE)

    def __eq__(self, o):
        return self._cmp(o, EQ)

    def __ne__(self, o):
        return self._cmp(o, NE)

    def __bool__(self):
        return engine().branch(self.e != 0)

    # -- no silent concretisation -----------------------------------------
    def __hash__(self):
        raise TypeError("symbolic real hashed")

    def __float__(self):
        raise TypeError("concretisation of a symbolic real requested (__float__)")

    def __int__(self):
        raise TypeError("concretisation of a symbolic real requested (__int__)")

    def __index__(self):
        raise TypeError("concretisation of a symbolic real requested (__index__)")

    def __round__(self, n=None):
        raise Unsupported("round() of a symbolic real")

    def __repr__(self):
        return "S(%s)" % (self.e,)

    # -- hooks used by numpy object loops ----------------------------------
    def sign(self):
        if self > 0:
            return 1.0
        if self < 0:
            return -1.0
        return 0.0

    def fabs(self):
        return abs(self)

    def conjugate(self):
        return self

    def astype(self, t):
        return self

    def item(self):
        return self

    def log10(self):
        return engine().log10(self)

    def isfinite(self):
        return True

    def isnan(self):
        return False

    def isinf(self):
        return False


def _div(a, b):
    eng = engine()
    if _is_const(b):
        if _const_value(b) == 0:
            zero = True
        else:
            return SymReal(z3.simplify(a / b))
    else:
        zero = eng.branch(b == 0)
    if zero:
        if _is_const(a):
            v = _const_value(a)
            return float("inf") if v > 0 else (float("-inf") if v < 0 else float("nan"))
        if eng.branch(a > 0):
            return float("inf")
        if eng.branch(a < 0):
            return float("-inf")
        return float("nan")
    return SymReal(z3.simplify(a / b))


class LogReal:
    """The positive real 10**e (e a z3 Real term): exact arithmetic for power laws."""
    __slots__ = ("e",)

    def __init__(self, e):
        self.e = e

    @staticmethod
    def of(x):
        """exponent term of a positive quantity, or None (not positive / not representable)"""
        if isinstance(x, LogReal):
            return x.e
        if isinstance(x, (int, float, np.integer, np.floating)) and not isinstance(x, (bool, np.bool_)):
            x = float(x)
            if x > 0 and math.isfinite(x):
                return engine().log_const(x)
        return None

    def _mul(self, o, sgn):
        oe = LogReal.of(o)
        if oe is None:
            if isinstance(o, (int, float, np.integer, np.floating)):
                o = float(o)
                if o == 0 and sgn > 0:
                    return 0.0
                if math.isinf(o) and o > 0:
                    return o if sgn > 0 else 0.0
            if isinstance(o, (SymReal,)):
                raise Unsupported("LogReal * SymReal")
            return NotImplemented
        return LogReal(z3.simplify(self.e + oe if sgn > 0 else self.e - oe))

    def __mul__(self, o):
        return self._mul(o, 1)

    __rmul__ = __mul__

    def __truediv__(self, o):
        return self._mul(o, -1)

    def __rtruediv__(self, o):
        oe = LogReal.of(o)
        if oe is None:
            if isinstance(o, (int, float)) and float(o) == 0:
                return 0.0
            return NotImplemented
        return LogReal(z3.simplify(oe - self.e))

    def __pow__(self, k):
        ke = lift(k)
        if ke is NotImplemented:
            return NotImplemented
        if ke is None:
            k = float(k)
            if math.isnan(k):
                return k
            # x**(+-inf): depends on x vs 1
            eng = engine()
            big = (k > 0)
            if eng.branch(self.e > 0):
                return float("inf") if big else 0.0
            if eng.branch(self.e < 0):
                return 0.0 if big else float("inf")
            return 1.0
        if isinstance(k, SymReal) and not _is_const(k.e):
            return LogReal(z3.simplify(self.e * ke))
        return LogReal(z3.simplify(self.e * ke))

    def __rpow__(self, base):
        raise Unsupported("number ** LogReal")

    def __neg__(self):
        raise Unsupported("negated LogReal")

    def __pos__(self):
        return self

    def __abs__(self):
        return self

    def __add__(self, o):
        if isinstance(o, (int, float)) and float(o) == 0:
            return self
        raise Unsupported("LogReal + x")

    __radd__ = __add__

    def __sub__(self, o):
        if isinstance(o, (int, float)) and float(o) == 0:
            return self
        raise Unsupported("LogReal - x")

    def __rsub__(self, o):
        raise Unsupported("x - LogReal")

    def _cmp(self, o, op):
        oe = LogReal.of(o)
        if oe is None:
            if isinstance(o, (int, float, np.integer, np.floating)):
                o = float(o)
                if math.isnan(o):
                    return op is NE
                if o <= 0:       # self > 0 >= o
                    return op in (GT, GE, NE)
                if math.isinf(o):
                    return op in (LT, LE, NE)
            return NotImplemented
        return SymBool(z3.simplify(op.f(self.e, oe)))

    def __lt__(self, o):
        return self._cmp(o, LT)

    def __le__(self, o):
        return self._cmp(o, LE)

    def __gt__(self, o):
        return self._cmp(o, GT)

    def __ge__(self, o):
        return self._cmp(o, GE)

    def __eq__(self, o):
        return self._cmp(o, EQ)

    def __ne__(self, o):
        return self._cmp(o, NE)

    def __bool__(self):
        return True

    def __hash__(self):
        raise TypeError("symbolic (log) real hashed")

    def __float__(self):
        raise TypeError("concretisation of a symbolic (log) real requested")

    def log10(self):
        return SymReal(self.e)

    def sqrt(self):
        return LogReal(z3.simplify(self.e / 2))

    def sign(self):
        return 1.0

    def fabs(self):
        return self

    def conjugate(self):
        return self

    def item(self):
        return self

    def astype(self, t):
        return self

    def __repr__(self):
        return "L(10**(%s))" % (self.e,)


# ---------------------------------------------------------------------------
# generic helpers used by harnesses and oracles (work for floats and symbols)

def s_abs(x):
    return abs(x)


def s_eq(a, b):
    """equality of two scalars as SymBool / bool; nan == nan counts as equal (same missing marker)."""
    if isinstance(a, (float, np.floating)) and isinstance(b, (float, np.floating)):
        if math.isnan(a) and math.isnan(b):
            return True
    r = (a == b)
    if isinstance(r, (SymBool, bool, np.bool_)):
        return r
    raise TypeError("cannot compare %r and %r" % (a, b))


def s_all_eq(xs, ys):
    """element-wise equality of two equally long sequences as one SymBool / bool"""
    if len(xs) != len(ys):
        return False
    return sym_and(*[s_eq(a, b) for a, b in zip(xs, ys)])


def s_ite(c, a, b):
    """if-then-else without forking (values must be SymReal or numbers)"""
    if isinstance(c, SymBool):
        ae, be = lift(a), lift(b)
        if ae is None or be is None or ae is NotImplemented or be is NotImplemented:
            return a if bool(c) else b
        return SymReal(z3.simplify(z3.If(c.e, ae, be)))
    return a if c else b


def s_max(a, b):
    return s_ite(a >= b, a, b)


def s_min(a, b):
    return s_ite(a <= b, a, b)
