"""Helpers shared by harnesses: structural equality, in-memory mutation of functions (canaries)."""
import inspect
import math
import textwrap
import types

import numpy as np

from .sym import SymReal, SymBool, LogReal, sym_and, s_eq


def flat(x):
    """numpy array / list / scalar -> python list of scalars (1-D)"""
    if isinstance(x, np.ndarray):
        return list(x.reshape(-1).tolist()) if x.dtype != object else list(x.reshape(-1))
    if isinstance(x, (list, tuple)):
        return list(x)
    return [x]


def eq_struct(a, b):
    """value equality of two nested structures as SymBool / bool (False on any structural mismatch)"""
    if isinstance(a, np.ndarray) or isinstance(b, np.ndarray) or isinstance(a, (list, tuple)) or isinstance(b, (list, tuple)):
        if np.ndim(a) == 0 and not isinstance(a, (list, tuple)) or np.ndim(b) == 0 and not isinstance(b, (list, tuple)):
            return False
        la, lb = list(a), list(b)
        if len(la) != len(lb):
            return False
        return sym_and(*[eq_struct(x, y) for x, y in zip(la, lb)])
    if isinstance(a, dict) and isinstance(b, dict):
        if a.keys() != b.keys():
            return False
        return sym_and(*[eq_struct(a[k], b[k]) for k in a])
    if a is None or b is None:
        return a is None and b is None
    if isinstance(a, str) or isinstance(b, str):
        return a == b
    if isinstance(a, (float, np.floating)) and isinstance(b, (float, np.floating)):
        if math.isnan(a) and math.isnan(b):
            return True
    r = (a == b)
    if isinstance(r, (SymBool, bool, np.bool_)):
        return r
    if r is NotImplemented:
        return False
    return bool(r)


def close_struct(a, b, rtol):
    """element-wise |a-b| <= rtol*(|a|+|b|) of two nested structures as SymBool / bool"""
    if isinstance(a, (np.ndarray, list, tuple)) or isinstance(b, (np.ndarray, list, tuple)):
        if not isinstance(a, (np.ndarray, list, tuple)) or not isinstance(b, (np.ndarray, list, tuple)):
            return False
        la, lb = list(a), list(b)
        if len(la) != len(lb):
            return False
        return sym_and(*[close_struct(x, y, rtol) for x, y in zip(la, lb)])
    if isinstance(a, (float, np.floating)) and isinstance(b, (float, np.floating)):
        if math.isnan(a) or math.isnan(b) or math.isinf(a) or math.isinf(b):
            return eq_struct(a, b)
    if isinstance(a, (float, np.floating)) and not math.isfinite(a) or isinstance(b, (float, np.floating)) and not math.isfinite(b):
        return eq_struct(a, b)
    return abs(a - b) <= rtol * (abs(a) + abs(b))


def mutated(func, old, new, count=1):
    """a copy of `func` whose source text has `old` replaced by `new` (must occur exactly `count` times)"""
    f = getattr(func, "__func__", func)
    f = getattr(f, "__pvx_original__", f)      # nested application (replay inside a symbolic run)
    src = textwrap.dedent(inspect.getsource(f))
    if src.count(old) != count:
        raise RuntimeError("canary is stale: %r occurs %d times in %s (expected %d)"
                           % (old, src.count(old), f.__qualname__, count))
    src = src.replace(old, new)
    # strip decorators that need the original context (e.g. @cython.locals(...)) only if they fail
    ns = dict(f.__globals__)
    exec(compile(src, "<mutated %s>" % f.__qualname__, "exec"), ns)
    g = ns[f.__name__]
    g = getattr(g, "__wrapped__", g)
    if not callable(g) or g.__code__.co_freevars:
        raise RuntimeError("cannot rebuild " + f.__qualname__)
    # bind to the *live* module globals so that other patches (kernels, facades) stay visible
    h = types.FunctionType(g.__code__, f.__globals__, f.__name__, g.__defaults__)
    h.__kwdefaults__ = g.__kwdefaults__
    h.__qualname__ = f.__qualname__
    h.__pvx_original__ = f
    return h
