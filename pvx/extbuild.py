"""Build pylife's compiled rainflow kernels from the working tree's extension.pyx.

The in-tree .so may be stale with respect to an edited .pyx; concrete replays therefore use a
module compiled from the current text.  Builds are cached under /verif/.cache keyed by the sha256
of the .pyx text (a changed source always triggers a rebuild); the build itself happens in a
mkdtemp directory outside /repo and /verif which is removed afterwards.
"""
import hashlib
import importlib.util
import os
import shutil
import subprocess
import sys
import tempfile

VERIF = os.path.dirname(os.path.dirname(os.path.abspath(__file__)))
REPO = os.environ.get("PVX_REPO", "/repo")
PYX = os.path.join(REPO, "src/pylife/stress/rainflow/extension.pyx")

_loaded = {}


def pyx_sha():
    with open(PYX, "rb") as f:
        return hashlib.sha256(f.read()).hexdigest()[:20]


def build():
    sha = pyx_sha()
    cache = os.path.join(VERIF, ".cache", "ext_" + sha)
    name = "pvx_rainflow_ext_" + sha
    so = os.path.join(cache, name + ".so")
    if os.path.exists(so):
        return so, name
    tmp = tempfile.mkdtemp(prefix="pvx_ext_")
    try:
        shutil.copy(PYX, os.path.join(tmp, name + ".pyx"))
        setup = ("from setuptools import setup, Extension\nfrom Cython.Build import cythonize\nimport numpy\n"
                 "setup(script_args=['build_ext','--inplace','-q'], ext_modules=cythonize([Extension(%r, [%r], "
                 "include_dirs=[numpy.get_include()], extra_compile_args=['-O1'])], quiet=True, language_level=3))\n"
                 % (name, name + ".pyx"))
        with open(os.path.join(tmp, "setup_ext.py"), "w") as f:
            f.write(setup)
        r = subprocess.run([sys.executable, "setup_ext.py"], cwd=tmp, capture_output=True, text=True)
        built = [f for f in os.listdir(tmp) if f.startswith(name) and f.endswith(".so")]
        if r.returncode != 0 or not built:
            raise RuntimeError("building the rainflow extension failed:\n" + r.stdout[-2000:] + r.stderr[-2000:])
        os.makedirs(cache, exist_ok=True)
        shutil.copy(os.path.join(tmp, built[0]), so + ".tmp%d" % os.getpid())
        os.replace(so + ".tmp%d" % os.getpid(), so)
    finally:
        shutil.rmtree(tmp, ignore_errors=True)
    return so, name


def load():
    so, name = build()
    if name in _loaded:
        return _loaded[name]
    spec = importlib.util.spec_from_file_location(name, so)
    mod = importlib.util.module_from_spec(spec)
    spec.loader.exec_module(mod)
    _loaded[name] = mod
    return mod
