import time, numpy as np, z3, sys
import symx
from symx import *
from pyx2py import pyx_to_py
import pylife.stress.rainflow as RF
import pylife.stress.rainflow.threepoint as TP, pylife.stress.rainflow.fourpoint as FP
ns = {}
exec(compile(pyx_to_py(open('/repo/src/pylife/stress/rainflow/extension.pyx').read()), 'extension.pyx', 'exec'), ns)
TP.threepoint_loop = ns['threepoint_loop']; FP.fourpoint_loop = ns['fourpoint_loop']

def eqlist(eng, a, b):
    if len(a) != len(b): return "len"
    conj = [symx._lift(x) == symx._lift(y) for x, y in zip(a, b)]
    return eng.check_assert(z3.And(*conj)) if conj else None

def obs(d):
    r = d.recorder
    return [list(r.values_from), list(r.values_to), list(d.residuals)], [list(map(int, r.index_from)), list(map(int, r.index_to)), list(map(int, d.residual_index))]

def run(eng):
    xs = reals('x', N)
    arr = np.array(xs, dtype=object)
    out = []
    for D in (RF.ThreePointDetector, RF.FourPointDetector):
        whole = obs(D(recorder=RF.FullRecorder()).process(arr))
        for k in range(1, N):
            d = D(recorder=RF.FullRecorder())
            d.process(arr[:k]).process(arr[k:])
            o = obs(d)
            if o[1] != whole[1]: out.append((D.__name__, k, 'idx', whole[1], o[1]))
            for a, b in zip(whole[0], o[0]):
                m = eqlist(eng, a, b)
                if m is not None: out.append((D.__name__, k, m))
    return out

for N in (3,4,5,6,7):
    eng = Engine(); symx.ENGINE = eng
    t=time.time()
    res = eng.explore(run)
    bad = [r for r in res if r]
    print(N, 'paths', eng.paths, 'queries', eng.nqueries, 'solver', round(eng.solver_time,2), 'wall', round(time.time()-t,2), 'violations', len(bad), bad[:1])
