import numpy as np, collections
import pylife.stress.rainflow as RF
rng = np.random.default_rng(3)

def tp_index(x):
    n = len(x)
    if n == 0: return []
    idx = [0]
    i = 1
    # interior reversals: a maximal plateau x[i..j] (i>=1, j<=n-2) whose left neighbour and right neighbour lie strictly on the same side
    i = 1
    while i < n - 1:
        j = i
        while j + 1 < n and x[j + 1] == x[i]: j += 1
        if j < n - 1 and x[i-1] != x[i]:
            left = x[i-1] - x[i]; right = x[j+1] - x[i]
            if (left < 0 and right < 0) or (left > 0 and right > 0):
                idx.append(i)
        i = j + 1
    if n > 1: idx.append(n - 1)
    return idx

def fourpoint_ref(vals, idxs):
    S = []; cyc = []
    for v, k in zip(vals, idxs):
        S.append((v, k))
        while len(S) >= 4:
            (a, _), (b, ib), (c, ic), (d, _) = S[-4:]
            if abs(b - c) <= abs(a - b) and abs(b - c) <= abs(c - d):
                cyc.append((b, c, ib, ic)); del S[-3:-1]
            else: break
    return cyc, S

def hcm_ref(turns):
    """Clormann-Seeger HCM"""
    res = []; IR = 1; cyc = []
    for K in turns:
        while True:
            IZ = len(res)
            if IZ > IR:
                I, J = res[-2], res[-1]
                if abs(K - J) >= abs(J - I):
                    cyc.append((I, J)); res.pop(); res.pop(); continue
                break
            if IZ == IR:
                J = res[-1]
                if abs(K) > abs(J): IR += 1
            break
        res.append(K)
    return cyc, res

cnt = collections.Counter(); shown = collections.Counter()
for trial in range(40000):
    n = rng.integers(2, 10)
    x = rng.integers(-3, 4, size=n).astype(float)
    ti = tp_index(x)
    # find_turns
    fi, fv = RF.find_turns(x)
    if list(fi) != ti[1:-1]: 
        cnt['find_turns'] += 1
        if shown['ft'] < 3: shown['ft'] += 1; print('find_turns', x.tolist(), list(fi), ti)
    d = RF.FourPointDetector(recorder=RF.FullRecorder()).process(x); r = d.recorder
    got = (list(zip(r.values_from, r.values_to, map(int, r.index_from), map(int, r.index_to))), list(zip(map(float, d.residuals), map(int, d.residual_index))))
    exp = fourpoint_ref([x[i] for i in ti], ti)
    if got != (exp[0], exp[1]):
        cnt['4pt'] += 1
        if shown['4'] < 3: shown['4'] += 1; print('4pt', x.tolist(), got, exp)
    used = sorted([c[2] for c in got[0]] + [c[3] for c in got[0]] + [k for _, k in got[1]])
    if used != ti: cnt['4pt-used'] += 1
    d3 = RF.ThreePointDetector(recorder=RF.FullRecorder()).process(x); r3 = d3.recorder
    used3 = sorted(list(map(int, r3.index_from)) + list(map(int, r3.index_to)) + list(map(int, d3.residual_index)))
    if used3 != ti:
        cnt['3pt-used'] += 1
        if shown['3u'] < 3: shown['3u'] += 1; print('3pt-used', x.tolist(), used3, ti)
    f = RF.FKMDetector(recorder=RF.LoopValueRecorder()).process(x)
    gotf = (list(zip(f.recorder.values_from, f.recorder.values_to)), list(map(float, f.residuals)))
    expf = hcm_ref([x[i] for i in ti[1:-1]])
    if gotf != (expf[0], expf[1]):
        cnt['fkm'] += 1
        if shown['f'] < 4: shown['f'] += 1; print('fkm', x.tolist(), gotf, expf)
print(cnt)

# classify fkm mismatches: is there an abs tie with the running max?
def has_abs_tie(turns):
    m = 0.0
    for t in turns:
        if abs(t) == m and m > 0: return True
        m = max(m, abs(t))
    return False
c2 = collections.Counter()
rng = np.random.default_rng(4)
for trial in range(60000):
    n = rng.integers(2, 11)
    x = rng.integers(-4, 5, size=n).astype(float)
    ti = tp_index(x)
    f = RF.FKMDetector(recorder=RF.LoopValueRecorder()).process(x)
    gotf = (list(zip(f.recorder.values_from, f.recorder.values_to)), list(map(float, f.residuals)))
    turns = [x[i] for i in ti[1:-1]]
    expf = hcm_ref(turns)
    c2[(gotf == (expf[0], expf[1]), has_abs_tie(turns))] += 1
print(c2)
