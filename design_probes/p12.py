import time, numpy as np, z3, sys, pandas as pd, warnings, traceback
warnings.simplefilter('ignore')
import symx
from symx import *
from pylife.materiallaws.notch_approximation_law import Binned
F = z3.Function('f', z3.RealSort(), z3.RealSort())
def ap(fn, x):
    return SymReal(fn(x.e if isinstance(x, SymReal) else symx._lift(x)))
class Law:
    ramberg_osgood_relation = None
    def stress(self, load, **kw): return load.map(lambda v: ap(F, v))
    def strain(self, stress, load): return load.map(lambda v: ap(F, v))
    def stress_secondary_branch(self, dl, **kw): return dl.map(lambda v: ap(F, v))
    def strain_secondary_branch(self, ds, dl): return dl.map(lambda v: ap(F, v))
def explore(name, run):
    eng = Engine(); symx.ENGINE = eng
    t=time.time()
    try:
        res = eng.explore(run)
    except BaseException as e:
        tb = traceback.format_exc().splitlines()
        print(name, 'FAILED', tb[-1]); print('\n'.join(l for l in tb if '/repo/' in l)[-900:]); return
    print(name, 'paths', eng.paths, 'queries', eng.nqueries, 'hits', eng.hits, 'wall', round(time.time()-t,2))
    for r in res[:4]: print('   ', r)
def multi(eng):
    L1 = SymReal(z3.Real('L1')); L2 = SymReal(z3.Real('L2')); eng.assume(z3.And(L1.e>0, L2.e>0))
    mx = pd.Series(np.array([L1, L2], dtype=object), index=pd.Index([7, 9], name='node_id'))
    b = Binned(Law(), mx, 2)
    l = SymReal(z3.Real('l'))
    load = pd.Series(np.array([l, l*2], dtype=object), index=pd.MultiIndex.from_product([[0],[7,9]], names=['load_step','node_id']))
    try:
        return ('ok', list(b.stress(load)))
    except ValueError: return ('raise',)
explore('multi stress', multi)
def series(eng):
    Lm = SymReal(z3.Real('Lm')); eng.assume(Lm.e>0)
    b = Binned(Law(), Lm, 2)
    l = reals('l', 2)
    try:
        return ('ok', list(b.stress(pd.Series(np.array(l, dtype=object)))))
    except ValueError: return ('raise',)
explore('series stress', series)
