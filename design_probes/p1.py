import time, numpy as np, z3
import symx
from symx import *
from pylife.stress.rainflow.general import find_turns
import pylife.stress.rainflow as RF

def run(eng):
    xs = reals('x', N)
    arr = np.array(xs, dtype=object)
    idx, vals = find_turns(arr)
    return (tuple(int(i) for i in idx), [v for v in vals])

for N in (3,4,5,6):
    eng = Engine(); symx.ENGINE = eng
    t=time.time()
    res = eng.explore(run)
    print(N, 'paths', eng.paths, 'queries', eng.nqueries, 'solver', round(eng.solver_time,2), 'wall', round(time.time()-t,2), 'distinct idx', len(set(r[0] for r in res)))
