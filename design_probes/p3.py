import time, numpy as np, z3, sys, pandas as pd, warnings
warnings.simplefilter('ignore')
import symx
from symx import *
import pylife.stress.rainflow as RF
from pylife.stress.rainflow.fkm_nonlinear import FKMNonlinearDetector
from pylife.stress.rainflow.recorders import FKMNonlinearRecorder

class Law:
    ramberg_osgood_relation = None
    def stress(self, load, **kw): return load * 1
    def strain(self, stress, load): return stress * 1
    def stress_secondary_branch(self, dl, **kw): return dl * 1
    def strain_secondary_branch(self, ds, dl): return ds * 1

def run(eng):
    xs = [SymReal(z3.ToReal(z3.Int(f"x{i}"))) for i in range(N)]
    arr = np.array(xs, dtype=object)
    rec = FKMNonlinearRecorder()
    d = FKMNonlinearDetector(recorder=rec, notch_approximation_law=Law())
    d.process_hcm_first(arr)
    d.process_hcm_second(arr)
    return (list(rec.loads_min), list(rec.loads_max), list(rec._is_closed_hysteresis), list(rec._run_index))

N = int(sys.argv[1])
eng = Engine(); symx.ENGINE = eng
t=time.time()
try:
    res = eng.explore(run, max_paths=int(sys.argv[2]) if len(sys.argv)>2 else 10**9)
except BaseException as e:
    import traceback; traceback.print_exc()
    res = []
print(N, 'paths', eng.paths, 'queries', eng.nqueries, 'solver', round(eng.solver_time,2), 'wall', round(time.time()-t,2))
for r in res[:5]: print(r)
