import numpy as np, itertools, collections
import pylife.stress.rainflow as RF
rng = np.random.default_rng(1)
def run(D, chunks, flush=False, rec=RF.FullRecorder):
    d = D(recorder=rec())
    for i, c in enumerate(chunks):
        d.process(c, flush=(flush and i == len(chunks)-1))
    r = d.recorder
    idx = (tuple(r.index_from), tuple(r.index_to)) if hasattr(r, 'index_from') else ()
    return (tuple(r.values_from), tuple(r.values_to), idx, tuple(np.asarray(d.residuals)), tuple(d.residual_index))
bad = collections.Counter()
ex = {}
for trial in range(20000):
    n = rng.integers(1, 9)
    x = rng.integers(-3, 4, size=n).astype(float)
    for D in (RF.ThreePointDetector, RF.FourPointDetector, RF.FKMDetector):
        for fl in (False, True):
            try:
                whole = run(D, [x], fl)
            except Exception as e:
                bad[(D.__name__, 'whole-exc', type(e).__name__)] += 1; ex.setdefault((D.__name__,'whole-exc'), (x, repr(e))); continue
            # random partition
            cuts = sorted(set(rng.integers(1, n, size=rng.integers(0, 4)))) if n > 1 else []
            parts = np.split(x, cuts)
            try:
                ch = run(D, parts, fl)
            except Exception as e:
                bad[(D.__name__, 'chunk-exc', type(e).__name__)] += 1; ex.setdefault((D.__name__,'chunk-exc'), (x, cuts, repr(e))); continue
            if ch != whole:
                bad[(D.__name__, fl)] += 1
                ex.setdefault((D.__name__, fl), (x, cuts, whole, ch))
    # 3pt vs 4pt multiset
    a = run(RF.ThreePointDetector, [x], True); b = run(RF.FourPointDetector, [x], True)
    if sorted(zip(a[0], a[1])) != sorted(zip(b[0], b[1])) or a[3] != b[3]:
        bad['3v4'] += 1; ex.setdefault('3v4', (x, a, b))
print(bad)
for k, v in ex.items(): print(k, v)
