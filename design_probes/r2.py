import numpy as np, collections
import pylife.stress.rainflow as RF
rng = np.random.default_rng(2)
def run(D, x, flush=True):
    d = D(recorder=RF.FullRecorder()); d.process(x, flush=flush)
    r = d.recorder
    return (list(zip(r.values_from, r.values_to)), list(map(float, d.residuals)), list(map(int, d.residual_index)), list(zip(map(int, r.index_from), map(int, r.index_to))))
cnt = collections.Counter(); shown = 0
for trial in range(30000):
    n = rng.integers(2, 9)
    x = rng.integers(-3, 4, size=n).astype(float)
    for fl in (True, False):
        a = run(RF.ThreePointDetector, x, fl); b = run(RF.FourPointDetector, x, fl)
        ms_a = sorted(tuple(sorted(c)) for c in a[0]); ms_b = sorted(tuple(sorted(c)) for c in b[0])
        kind = None
        if a[1] != b[1]: kind = 'residual'
        elif sorted(a[0]) != sorted(b[0]):
            kind = 'cycles-direction' if ms_a == ms_b else 'cycles'
        if kind:
            cnt[(kind, fl)] += 1
            if shown < 6 and kind != "cycles-direction" and len(set(x.tolist())) > 1:
                shown += 1; print(kind, fl, x.tolist(), '\n   3pt', a[:3], '\n   4pt', b[:3])
print(cnt)
