import sys
src = open('r4.py').read()
patch = '''
import pylife.stress.rainflow.general
def _adj(self, samples):
    samples = np.concatenate([[0], np.asarray(samples)])
    scalar_samples = samples
    twice = np.concatenate([scalar_samples, scalar_samples[1:]])
    turn_indices, _ = pylife.stress.rainflow.general.find_turns(twice)
    flush = True
    if len(scalar_samples)-1 not in turn_indices:
        flush = False
    return samples, flush
FKMNonlinearDetector._adjust_samples_and_flush_for_hcm_first_run = _adj
'''
src = src.replace("def cyclic_reversals(x):", patch + "\ndef cyclic_reversals(x):")
exec(src)
