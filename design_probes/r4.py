import numpy as np, pandas as pd, warnings, collections, sys
warnings.simplefilter('ignore')
from pylife.stress.rainflow.fkm_nonlinear import FKMNonlinearDetector
from pylife.stress.rainflow.recorders import FKMNonlinearRecorder
import pylife.stress.rainflow.general as G
exec(open('r3.py').read().split("cnt = collections.Counter()")[0])  # tp_index, fourpoint_ref, hcm_ref
class Law:
    ramberg_osgood_relation = None
    def stress(self, load, **kw): return load * 1.0
    def strain(self, stress, load): return stress * 1.0
    def stress_secondary_branch(self, dl, **kw): return dl * 1.0
    def strain_secondary_branch(self, ds, dl): return ds * 1.0

def cyclic_reversals(x):
    n = len(x); xx = list(x) * 3
    ti = tp_index(np.array(xx))
    return [xx[i] for i in ti if n <= i < 2 * n]

def oracle(x):
    r = cyclic_reversals(x)
    if len(r) < 2: return None
    k = max(range(len(r)), key=lambda i: abs(r[i]))
    rot = r[k:] + r[:k] + [r[k]]
    S=[]; cyc=[]
    for p in rot:
        S.append(p)
        while len(S) >= 3 and abs(S[-1]-S[-2]) >= abs(S[-2]-S[-3]):
            cyc.append((S[-3], S[-2])); del S[-3:-1]
    assert len(S) == 1, (x, rot, S)
    return sorted((min(a, b), max(a, b)) for a, b in cyc), S

def impl(x):
    rec = FKMNonlinearRecorder()
    d = FKMNonlinearDetector(recorder=rec, notch_approximation_law=Law())
    d.process_hcm_first(np.array(x)); d.process_hcm_second(np.array(x))
    c = rec.collective
    run2 = c[c.run_index == 2]
    return sorted(zip(run2.loads_min, run2.loads_max)), list(run2.is_closed_hysteresis), c

def last_is_cyclic_reversal(x):
    n = len(x); xx = list(x) * 3
    ti = tp_index(np.array(xx))
    # last sample of the middle copy belongs to a reversal plateau?
    # find plateau containing index 2n-1
    j = 2 * n - 1
    while xx[j - 1] == xx[j]: j -= 1
    return j in ti

rng = np.random.default_rng(5)
cnt = collections.Counter(); shown = collections.Counter()
for trial in range(int(sys.argv[1])):
    n = rng.integers(2, 8)
    x = rng.integers(-3, 4, size=n).astype(float)
    if len(set(x)) < 2: continue
    o = oracle(x)
    if o is None: continue
    try:
        got, closed, c = impl(x)
    except Exception as e:
        cnt[('exc', type(e).__name__)] += 1
        if shown['exc'] < 3: shown['exc'] += 1; print('EXC', x.tolist(), repr(e)[:100])
        continue
    ok = (got == o[0]) and all(closed)
    key = (ok, last_is_cyclic_reversal(x))
    cnt[key] += 1
    if not ok and shown[key] < 5:
        shown[key] += 1; print(key, x.tolist(), 'got', got, 'exp', o[0])
print(cnt)
