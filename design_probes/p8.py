import time, numpy as np, z3, sys, pandas as pd, warnings, traceback
warnings.simplefilter('ignore')
import symx
from symx import *
from pylife.stress.rainflow.fkm_nonlinear import FKMNonlinearDetector
from pylife.stress.rainflow.recorders import FKMNonlinearRecorder
from pylife.materiallaws.notch_approximation_law import Binned
import pylife.utils.histogram as H

def explore(name, run, max_paths=10**9):
    eng = Engine(); symx.ENGINE = eng
    t=time.time()
    try:
        res = eng.explore(run, max_paths=max_paths)
    except BaseException as e:
        tb = traceback.format_exc().splitlines()
        print(name, 'FAILED', tb[-1]); print('\n'.join(l for l in tb if '/repo/' in l or 'pandas/core' in l)[-900:])
        return
    print(name, 'paths', eng.paths, 'queries', eng.nqueries, 'solver', round(eng.solver_time,2), 'wall', round(time.time()-t,2))
    for r in res[:2]: print('   ', r)

F = z3.Function('f', z3.RealSort(), z3.RealSort())
def ap(fn, x):
    return SymReal(fn(x.e if isinstance(x, SymReal) else symx._lift(x)))
class Law:
    ramberg_osgood_relation = None
    def stress(self, load, **kw): return load.map(lambda v: ap(F, v))
    def strain(self, stress, load): return load.map(lambda v: ap(F, v))
    def stress_secondary_branch(self, dl, **kw): return dl.map(lambda v: ap(F, v))
    def strain_secondary_branch(self, ds, dl): return dl.map(lambda v: ap(F, v))

def multi(eng):
    N=3
    xs = [SymReal(z3.Real(f"x{i}")) for i in range(N)]
    idx = pd.MultiIndex.from_product([range(N), [7, 9]], names=['load_step', 'node_id'])
    vals = []
    for x in xs: vals += [x, x*2]
    s = pd.Series(np.array(vals, dtype=object), index=idx)
    rec = FKMNonlinearRecorder()
    d = FKMNonlinearDetector(recorder=rec, notch_approximation_law=Law())
    d.process_hcm_first(s)
    d.process_hcm_second(s)
    c = rec.collective
    return (list(c.S_min), list(c.is_closed_hysteresis))
explore('hcm multi', multi, max_paths=3)

def binned_multi(eng):
    L1 = SymReal(z3.Real('L1')); L2 = SymReal(z3.Real('L2')); eng.assume(z3.And(L1.e>0, L2.e>0))
    mx = pd.Series(np.array([L1, L2], dtype=object), index=pd.Index([7, 9], name='node_id'))
    b = Binned(Law(), mx, 2)
    return list(b._lut_primary_branch.stress)
explore('binned multi', binned_multi)

def rebin(eng):
    h = reals('h', 3)
    hist = pd.Series(np.array(h, dtype=object), index=pd.IntervalIndex.from_breaks([0., 1., 2., 4.]), name='cycles')
    r = H.rebin_histogram(hist, pd.IntervalIndex.from_breaks([0., 0.5, 3., 4.]))
    return list(r)
explore('rebin', rebin)

def combine(eng):
    h = reals('h', 3); g = reals('g', 3)
    ix = pd.IntervalIndex.from_breaks([0., 1., 2., 4.])
    r = H.combine_histogram([pd.Series(np.array(h, dtype=object), index=ix), pd.Series(np.array(g, dtype=object), index=ix)])
    return list(r)
explore('combine', combine)
