from typing import List
import numpy as np
from pylife.stress.rainflow.general import find_turns
import pylife.stress.rainflow as RF

def chunk_indep(xs: List[float], k: int) -> bool:
    """
    pre: 3 <= len(xs) <= 5
    pre: 0 < k < len(xs)
    pre: all(-1e6 < x < 1e6 for x in xs)
    post: _
    """
    arr = np.array(xs, dtype=object)
    a = RF.FKMDetector(recorder=RF.LoopValueRecorder()).process(arr)
    b = RF.FKMDetector(recorder=RF.LoopValueRecorder()).process(arr[:k]).process(arr[k:])
    return list(a.recorder.values_from) == list(b.recorder.values_from) and list(a.residuals) == list(b.residuals)
