import time, numpy as np, z3, sys, pandas as pd, warnings, traceback, types, math
warnings.simplefilter('ignore')
import symx
from symx import *
import pylife.materiallaws.woehlercurve as WC

class LogReal:
    """positive real 10**e"""
    def __init__(self, e): self.e = e
    @staticmethod
    def lift(x):
        if isinstance(x, LogReal): return x.e
        if isinstance(x, (int, float, np.floating, np.integer)):
            x = float(x)
            if x <= 0 or math.isinf(x): return None
            l = math.log10(x)
            if 10.0 ** round(l) == x: return z3.RealVal(round(l))
            c = z3.Real(f"lg_{x!r}")
            symx.ENGINE.solver.add(c > z3.RealVal(str(l - 1e-12)), c < z3.RealVal(str(l + 1e-12)))
            return c
        return NotImplemented
    def __mul__(s, o):
        oe = LogReal.lift(o)
        if oe is NotImplemented or oe is None: return NotImplemented
        return LogReal(s.e + oe)
    __rmul__ = __mul__
    def __truediv__(s, o):
        oe = LogReal.lift(o)
        if oe is NotImplemented or oe is None: return NotImplemented
        return LogReal(s.e - oe)
    def __rtruediv__(s, o):
        oe = LogReal.lift(o)
        if oe is NotImplemented or oe is None: return NotImplemented
        return LogReal(oe - s.e)
    def __pow__(s, k):
        ke = symx._lift(k)
        return LogReal(z3.simplify(s.e * ke))
    def log10(s): return SymReal(s.e)
    def _cmp(s, o, f):
        if isinstance(o, (int, float)) and o <= 0: return f(1, 0)
        if isinstance(o, float) and math.isinf(o): return f(0, 1)
        oe = LogReal.lift(o)
        if oe is NotImplemented: return NotImplemented
        return SymBool(f(s.e, oe))
    def __lt__(s, o): return s._cmp(o, lambda a, b: a < b)
    def __le__(s, o): return s._cmp(o, lambda a, b: a <= b)
    def __gt__(s, o): return s._cmp(o, lambda a, b: a > b)
    def __ge__(s, o): return s._cmp(o, lambda a, b: a >= b)
    def __eq__(s, o): return s._cmp(o, lambda a, b: a == b)
    def __ne__(s, o): return s._cmp(o, lambda a, b: a != b)
    def __neg__(s): return NegLog(s)
    def __hash__(s): return id(s)
    def __repr__(s): return f"10^({s.e})"
class NegLog:
    def __init__(s, l): s.l = l
    def __lt__(s, o): return o.l < s.l if isinstance(o, NegLog) else NotImplemented
    def __neg__(s): return s.l
def rpow(self, base):
    if base == 10: return LogReal(self.e)
    raise NotImplementedError
SymReal.__rpow__ = rpow

def has_sym(x):
    if isinstance(x, (SymReal, LogReal, SymBool)): return True
    if isinstance(x, np.ndarray) and x.dtype == object: return True
    if isinstance(x, (pd.Series, pd.DataFrame)): return (x.dtypes == object).any() if isinstance(x, pd.DataFrame) else x.dtype == object
    if isinstance(x, (list, tuple)): return any(has_sym(i) for i in x)
    return False

class NPFacade(types.ModuleType):
    def __init__(self):
        super().__init__('np_facade')
    def __getattr__(self, name):
        return getattr(np, name)
    def asarray(self, x, dtype=None, **kw):
        if isinstance(x, SymBool): return np.asarray(bool(x))
        if has_sym(x) and dtype in (np.float64, float, np.double): dtype = object
        return np.asarray(x, dtype=dtype, **kw)
    def full_like(self, a, v, dtype=None, **kw):
        if has_sym(a) or has_sym(v): dtype = object
        return np.full_like(a, v, dtype=dtype, **kw)
    def isfinite(self, a):
        a = np.asarray(a)
        if a.dtype != object: return np.isfinite(a)
        return np.asarray(np.frompyfunc(lambda v: not (isinstance(v, float) and (math.isinf(v) or math.isnan(v))), 1, 1)(a)).astype(bool)

WC.np = NPFacade()
_Series = pd.Series

def run(eng):
    SD = LogReal(z3.Real('lSD')); ND = LogReal(z3.Real('lND')); k1 = SymReal(z3.Real('k1')); S = LogReal(z3.Real('lS'))
    eng.assume(k1.e > 1)
    wc = pd.Series({'k_1': k1, 'ND': ND, 'SD': SD, 'k_2': KK}).woehler
    N = wc.cycles(S)
    S2 = wc.load(N) if not (isinstance(N, np.ndarray) and N.dtype != object) else None
    return (N, S2)

for KK in (np.inf, 7.0):
    eng = Engine(); symx.ENGINE = eng
    t=time.time()
    try:
        res = eng.explore(run)
    except BaseException as e:
        traceback.print_exc(); res=[]
    print('paths', eng.paths, 'queries', eng.nqueries, 'solver', round(eng.solver_time,2), 'wall', round(time.time()-t,2))
    for r in res[:6]: print('  ', r)
