import sys
src = open('r4.py').read()
src = src.replace("    key = (ok, last_is_cyclic_reversal(x))", "    key = (ok, last_is_cyclic_reversal(x), bool(x[-1] == x[-2]), bool(x[-1] == x[0]))")
exec(src)
