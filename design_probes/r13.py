import numpy as np, pandas as pd, warnings, collections, math
warnings.simplefilter('ignore')
import pylife.materiallaws, pylife.strength.fatigue
from pylife.utils.functions import scattering_range_to_std, std_to_scattering_range
rng = np.random.default_rng(19)
cnt = collections.Counter(); shown = collections.Counter()
def note(k, ok, *info):
    cnt[(k, ok)] += 1
    if not ok and shown[k] < 3: shown[k] += 1; print(k, *info)
for t in range(1500):
    k1 = float(rng.choice([1.5, 3, 5, 7.5, 12])); k2 = float(rng.choice([k1, 2*k1-1, k1+2, np.inf]))
    SD = float(rng.choice([50., 100., 333.3])); ND = float(rng.choice([1e5, 2e6, 3.3e7]))
    TN = float(rng.choice([1., 2., 5.1])); TS = float(rng.choice([1., 1.2, 1.5]))
    pn = float(rng.choice([0.1, 0.5, 0.9]))
    wc = pd.Series({'k_1': k1, 'k_2': k2, 'SD': SD, 'ND': ND, 'TN': TN, 'TS': TS, 'failure_probability': pn})
    S = float(SD * rng.choice([0.3, 0.9, 1.0, 1.1, 2.5]))
    for p in (0.1, 0.5, 0.9):
        N = float(wc.woehler.cycles(S, p))
        if math.isfinite(N):
            S2 = float(wc.woehler.load(N, p)); note('load(cycles)', math.isclose(S2, S, rel_tol=1e-9), wc.to_dict(), S, p, N, S2)
        Ncyc = float(ND * rng.choice([0.01, 0.5, 1.0, 2.0, 50.]))
        L = float(wc.woehler.load(Ncyc, p)); N2 = float(wc.woehler.cycles(L, p))
        tr = wc.woehler.transform_to_failure_probability(p).to_pandas()
        if math.isfinite(N2) and not (k2 == np.inf and Ncyc >= tr.ND):
            note('cycles(load)', math.isclose(N2, Ncyc, rel_tol=1e-9), wc.to_dict(), Ncyc, p, L, N2)
    # monotone in p
    Ns = [float(wc.woehler.cycles(S, p)) for p in (0.1, 0.5, 0.9)]
    note('grow with p', Ns[0] <= Ns[1] * (1+1e-12) and Ns[1] <= Ns[2] * (1+1e-12), wc.to_dict(), S, Ns)
    t10 = wc.woehler.transform_to_failure_probability(0.1).to_pandas(); t90 = wc.woehler.transform_to_failure_probability(0.9).to_pandas()
    note('SD90/SD10=TS', math.isclose(t90.SD / t10.SD, TS, rel_tol=1e-9), wc.to_dict(), t90.SD / t10.SD)
    # N_90/N_10 at fixed load above both SDs
    Sx = 3 * SD
    note('N90/N10=TN', math.isclose(float(wc.woehler.cycles(Sx, 0.9)) / float(wc.woehler.cycles(Sx, 0.1)), TN, rel_tol=1e-9), wc.to_dict())
    a = wc.woehler.transform_to_failure_probability(0.1).transform_to_failure_probability(0.9).to_pandas()
    note('group law', all(math.isclose(a[k], t90[k], rel_tol=1e-9) for k in ('SD', 'ND')), wc.to_dict(), a.to_dict(), t90.to_dict())
    idn = wc.woehler.transform_to_failure_probability(pn).to_pandas()
    note('identity', all(math.isclose(idn[k], wc[k], rel_tol=1e-12) for k in ('SD', 'ND')), wc.to_dict())
note('std<->T', math.isclose(std_to_scattering_range(scattering_range_to_std(3.7)), 3.7, rel_tol=1e-12))
print(sorted(cnt.items()))
