import numpy as np, pandas as pd, warnings, collections, math
warnings.simplefilter('ignore')
import pylife.stress.equistress as EQ
import pylife.strength.woehler_fkm_nonlinear
import pylife.materialdata.woehler
rng = np.random.default_rng(29)
cnt = collections.Counter(); shown = collections.Counter()
def note(k, ok, *info):
    cnt[(k, ok)] += 1
    if not ok and shown[k] < 3: shown[k] += 1; print(k, *info)
# C17
for t in range(3000):
    v = rng.integers(-3, 4, size=6).astype(float)
    if t % 5 == 0: v[3:] = 0
    if t % 7 == 0: v[:] = 0
    s11, s22, s33, s12, s13, s23 = v
    lam = np.linalg.eigvalsh(np.array([[s11, s12, s13], [s12, s22, s23], [s13, s23, s33]]))
    note('tresca', math.isclose(float(EQ.tresca(*v)), lam[2] - lam[0], abs_tol=1e-9), v)
    am = lam[2] if abs(lam[2]) >= abs(lam[0]) else lam[0]
    if not math.isclose(abs(lam[2]), abs(lam[0]), abs_tol=1e-9):
        note('absmax', math.isclose(float(EQ.abs_max_principal(*v)), am, abs_tol=1e-9), v, lam, float(EQ.abs_max_principal(*v)))
    mis = math.sqrt(0.5 * ((lam[0]-lam[1])**2 + (lam[1]-lam[2])**2 + (lam[0]-lam[2])**2))
    note('mises', math.isclose(float(EQ.mises(*v)), mis, abs_tol=1e-9), v)
    tr = s11 + s22 + s33
    note('signed-trace', math.isclose(float(EQ.signed_mises_trace(*v)), (1 if tr >= 0 else -1) * mis, abs_tol=1e-9), v)
# C09a
for t in range(2000):
    Z = float(rng.choice([300., 800.])); D = float(Z * rng.choice([0.1, 0.4])); d1 = float(rng.choice([-0.302, -0.25])); d2 = float(rng.choice([-0.197, -0.1]))
    wc = pd.Series({'P_RAM_Z': Z, 'P_RAM_D': D, 'd_1': d1, 'd_2': d2}).woehler_P_RAM
    N = float(10 ** rng.uniform(0, 9))
    P = float(wc.calc_P_RAM(N)); N2 = float(wc.calc_N(P))
    if N < float(wc.fatigue_life_limit):
        note('pram inverse', math.isclose(N2, N, rel_tol=1e-9), Z, D, d1, d2, N, P, N2)
    else:
        note('pram endurance', P == D and math.isinf(N2), N, P, N2)
    note('pram knee', math.isclose(float(wc.calc_P_RAM(1e3)), Z, rel_tol=1e-12) and math.isclose(float(wc.calc_N(Z)), 1e3, rel_tol=1e-12))
    wj = pd.Series({'P_RAJ_Z': Z, 'P_RAJ_D_0': D * 0.01, 'd_RAJ': -0.63}).woehler_P_RAJ
    Pj = float(wj.calc_P_RAJ(N)); Nj = float(wj.calc_N(Pj))
    if N < float(wj.fatigue_life_limit): note('praj inverse', math.isclose(Nj, N, rel_tol=1e-9), N, Pj, Nj)
    else: note('praj endurance', math.isinf(Nj), N, Pj, Nj)
# C18 zones
for t in range(2000):
    n = rng.integers(3, 8)
    df = pd.DataFrame({'load': rng.integers(1, 6, size=n).astype(float) * 100, 'cycles': 10 ** rng.uniform(4, 7, size=n), 'fracture': rng.random(n) < 0.6})
    if not df.fracture.any() or df[df.fracture].cycles.nunique() < 2 or df[df.fracture].load.nunique() < 2: continue
    fd = df.fatigue_data
    fz, iz, tr = fd.finite_zone, fd.infinite_zone, fd.finite_infinite_transition
    ok = (len(set(fz.index) & set(iz.index)) == 0) and (set(fz.index) | set(iz.index) == set(df.index))
    if len(fz) and len(iz): ok = ok and iz.load.max() <= tr <= fz.load.min()
    note('zones', ok, df.to_dict('list'), list(fz.index), list(iz.index), tr)
print(sorted(cnt.items()))
