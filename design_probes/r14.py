import numpy as np, pandas as pd, warnings, collections, math
warnings.simplefilter('ignore')
from pylife.materiallaws.notch_approximation_law import Binned, ExtendedNeuber
import pylife.utils.histogram as H
import pylife.stress.collective
rng = np.random.default_rng(23)
cnt = collections.Counter(); shown = collections.Counter()
def note(k, ok, *info):
    cnt[(k, ok)] += 1
    if not ok and shown[k] < 3: shown[k] += 1; print(k, *info)
law = ExtendedNeuber(E=206e3, K=1184., n=0.187, K_p=3.5)
for nb in (2, 3, 5, 8):
    Lmax = 700.0
    b = Binned(law, Lmax, nb)
    edges = [k / nb * Lmax for k in range(1, nb + 1)]
    loads = [0.0, 1e-9, Lmax] + edges + [-e for e in edges] + [e - 1e-9 for e in edges] + [e + 1e-9 for e in edges[:-1]] + list(rng.uniform(-Lmax, Lmax, 20))
    for L in loads:
        try:
            s = float(b.stress(L)); e = float(b.strain(s, L))
        except ValueError:
            note('stress-range', abs(L) > Lmax, nb, L); continue
        k = next(i for i, ed in enumerate(edges) if ed >= abs(L))
        exp = np.sign(L) * float(law.stress(np.array([edges[k]]))[0])
        note('stress-edge', math.isclose(s, exp, rel_tol=1e-6, abs_tol=0), nb, L, s, exp)
    for L in (Lmax * (1 + 1e-12), -Lmax - 1.0, 2 * Lmax):
        try: b.stress(L); note('raise', False, nb, L)
        except ValueError: note('raise', True)
    edges2 = [k / nb * Lmax for k in range(1, 2 * nb + 1)]
    for dL in [2 * Lmax, -2 * Lmax] + edges2 + list(rng.uniform(-2 * Lmax, 2 * Lmax, 20)):
        s = float(b.stress_secondary_branch(dL))
        k = next(i for i, ed in enumerate(edges2) if ed >= abs(dL))
        exp = np.sign(dL) * float(law.stress_secondary_branch(np.array([edges2[k]]))[0])
        note('sec-edge', math.isclose(s, exp, rel_tol=1e-6), nb, dL, s, exp)
# C14 rebin conservation
for t in range(500):
    src = np.unique(np.round(rng.choice(np.arange(0, 17) / 2.0, size=rng.integers(2, 6), replace=False), 3))
    if len(src) < 2: continue
    lo, hi = src[0], src[-1]
    inner = rng.choice(np.arange(int(lo * 4), int(hi * 4) + 1) / 4.0, size=rng.integers(0, 4))
    tgt = np.unique(np.concatenate([[lo - rng.choice([0, .5])], inner, [hi + rng.choice([0, 1.0])]]))
    h = pd.Series(rng.integers(0, 9, size=len(src) - 1).astype(float), index=pd.IntervalIndex.from_breaks(src), name='cycles')
    try:
        r = H.rebin_histogram(h, pd.IntervalIndex.from_breaks(tgt))
    except ValueError as e:
        note('rebin-exc-' + ('single' if len(tgt) == 2 else 'multi'), False, src, tgt, str(e)); continue
    note('rebin-total', math.isclose(r.sum(), h.sum(), rel_tol=1e-12, abs_tol=1e-12), src, tgt, h.values, r.values)
    try:
        r2 = H.rebin_histogram(h, h.index)
        note('rebin-id', np.allclose(r2.values, h.values), src)
    except ValueError as e:
        note('rebin-id-exc-' + ('single' if len(src) == 2 else 'multi'), False, src, str(e))
print(sorted(cnt.items()))
