import numpy as np, pandas as pd, warnings, collections, math, sys
warnings.simplefilter('ignore')
from pylife.stress.rainflow.fkm_nonlinear import FKMNonlinearDetector
from pylife.stress.rainflow.recorders import FKMNonlinearRecorder

# analytic monotone odd law with Masing secondary branch
def f(L): return np.sign(L) * (abs(L) ** 0.8) * 10.0          # primary stress
def g(s): return s / 2000.0 + np.sign(s) * (abs(s) / 900.0) ** 3  # strain from stress (RO-like)
class Law:
    ramberg_osgood_relation = None
    def stress(self, load, **kw): return load.map(f)
    def strain(self, stress, load): return stress.map(g)
    def stress_secondary_branch(self, dl, **kw): return dl.map(lambda d: 2 * f(d / 2))
    def strain_secondary_branch(self, ds, dl): return ds.map(lambda d: 2 * g(d / 2))
P1 = lambda L: (f(L), g(f(L)))
def S2(prev, L):
    dL = L - prev[0]; ds = 2 * f(dL / 2); de = 2 * g(ds / 2)
    return (prev[1] + ds, prev[2] + de)

def oracle(x):
    rows = []; strains = [[], []]
    stack = []; ir = 1; Lmax = 0.0
    visited = [0.0]
    for run in (1, 2):
        for L in x:
            while True:
                iz = len(stack)
                if iz == ir:
                    prev = stack[-1]
                    if abs(L) > Lmax:
                        # Memory 3: half hysteresis mirrored about zero
                        rows.append(dict(loads_min=-abs(prev[0]), loads_max=abs(prev[0]), S_min=-abs(prev[1]), S_max=abs(prev[1]),
                                         epsilon_min=-abs(prev[2]), epsilon_max=abs(prev[2]), closed=False, run=run, lf=(min(visited), max(visited))))
                        s, e = P1(L); ir += 1
                    else:
                        s, e = S2(prev, L)
                    break
                if iz < ir:
                    s, e = P1(L); break
                p0, p1 = stack[-2], stack[-1]
                if abs(L - p1[0]) < abs(p1[0] - p0[0]):
                    s, e = S2(p1, L); break
                rows.append(dict(loads_min=min(p0[0], p1[0]), loads_max=max(p0[0], p1[0]), S_min=min(p0[1], p1[1]), S_max=max(p0[1], p1[1]),
                                 epsilon_min=min(p0[2], p1[2]), epsilon_max=max(p0[2], p1[2]), closed=True, run=run, lf=(min(visited), max(visited))))
                stack.pop(); stack.pop()
                if abs(p0[0]) < Lmax and abs(p1[0]) < Lmax: continue
                s, e = P1(L); break
            Lmax = max(Lmax, abs(L))
            stack.append((L, s, e)); visited.append(e); strains[run-1].append(e)
    return rows, strains

def impl(x):
    rec = FKMNonlinearRecorder()
    d = FKMNonlinearDetector(recorder=rec, notch_approximation_law=Law())
    d.process_hcm_first(np.array(x)); d.process_hcm_second(np.array(x))
    return rec.collective, d

rng = np.random.default_rng(17)
cnt = collections.Counter(); shown = collections.Counter()
trials = 0
while trials < int(sys.argv[1]):
    n = rng.integers(2, 8)
    x = rng.integers(-6, 7, size=n).astype(float)
    # proper reversal sequence: strict alternation incl. junction, x0 != 0 and x0 a reversal w.r.t. 0
    d = np.diff(np.concatenate([[0.0], x, x[:2]]))
    if np.any(d == 0) or np.any(d[:-1] * d[1:] >= 0): continue
    trials += 1
    rows, strains = oracle(x)
    c, det = impl(x)
    ok = len(rows) == len(c)
    bad = []
    if ok:
        for i, r in enumerate(rows):
            row = c.iloc[i]
            for k in ('loads_min', 'loads_max', 'S_min', 'S_max', 'epsilon_min', 'epsilon_max'):
                if not math.isclose(row[k], r[k], rel_tol=1e-9, abs_tol=1e-12): bad.append((i, k, row[k], r[k]))
            if bool(row.is_closed_hysteresis) != r['closed'] or int(row.run_index) != r['run']: bad.append((i, 'flags'))
            if not math.isclose(row.epsilon_min_LF, r['lf'][0], rel_tol=1e-9, abs_tol=1e-12): bad.append((i, 'eps_min_LF', row.epsilon_min_LF, r['lf'][0]))
            if not math.isclose(row.epsilon_max_LF, r['lf'][1], rel_tol=1e-9, abs_tol=1e-12): bad.append((i, 'eps_max_LF', row.epsilon_max_LF, r['lf'][1]))
        s1 = list(det.strain_values_first_run); s2 = list(det.strain_values_second_run)
        if not (np.allclose(s1, strains[0]) if len(s1) == len(strains[0]) else False): bad.append(('strain1', s1, strains[0]))
        if not (np.allclose(s2, strains[1]) if len(s2) == len(strains[1]) else False): bad.append(('strain2', s2, strains[1]))
    else:
        bad.append(('nrows', len(c), len(rows)))
    kinds = tuple(sorted(set(b[1] if isinstance(b[0], int) else b[0] for b in bad)))
    cnt[kinds] += 1
    if bad and shown[kinds] < 2:
        shown[kinds] += 1; print(x.tolist(), bad[:3])
print(cnt)
