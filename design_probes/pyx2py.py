import re
def pyx_to_py(src):
    out=[]
    lines=[]
    buf=None
    for line in src.splitlines():
        if buf is not None:
            buf += ' ' + line.strip()
            if buf.count('(') == buf.count(')'):
                lines.append(buf); buf=None
            continue
        if line.strip().startswith(('def ','cdef ','cpdef ')) and line.count('(') > line.count(')'):
            buf=line; continue
        lines.append(line)
    for line in lines:
        s=line.strip()
        ind=line[:len(line)-len(line.lstrip())]
        if s.startswith('cimport') or s.startswith('from libc'):
            continue
        if s.startswith('@cython.'):
            continue
        m=re.match(r'(cp?def)\s+(?:[\w ]+?\s+)?(\w+)\((.*)\):\s*$', s) if s.startswith(('cpdef','cdef')) and '(' in s else None
        if m:
            args=[a.strip().split()[-1] for a in m.group(3).split(',')]
            out.append(f"{ind}def {m.group(2)}({', '.join(args)}):"); continue
        if s.startswith('def '):
            m=re.match(r'def\s+(\w+)\((.*)\):\s*$', s)
            if m:
                args=[a.strip().split()[-1] for a in m.group(2).split(',') if a.strip()]
                out.append(f"{ind}def {m.group(1)}({', '.join(args)}):"); continue
        if s.startswith('cdef '):
            if '=' in s:
                lhs,rhs=s.split('=',1)
                name=lhs.strip().split()[-1]
                out.append(f"{ind}{name} ={rhs}")
            continue
        out.append(line)
    py='\n'.join(out)
    py=py.replace('dtype=np.float64','dtype=object')
    return "from builtins import abs as fabs\n"+py
if __name__=='__main__':
    print(pyx_to_py(open('/repo/src/pylife/stress/rainflow/extension.pyx').read()))
