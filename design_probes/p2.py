import time, numpy as np, z3, sys
import symx
from symx import *
import pylife.stress.rainflow as RF

def eqlist(eng, a, b):
    if len(a) != len(b): return "len"
    conj = []
    for x, y in zip(a, b):
        xe = symx._lift(x); ye = symx._lift(y)
        conj.append(xe == ye)
    m = eng.check_assert(z3.And(*conj)) if conj else None
    return m

def run(eng):
    xs = reals('x', N)
    arr = np.array(xs, dtype=object)
    whole = RF.FKMDetector(recorder=RF.LoopValueRecorder()).process(arr)
    out = []
    for k in range(1, N):
        d = RF.FKMDetector(recorder=RF.LoopValueRecorder())
        d.process(arr[:k]).process(arr[k:])
        for a, b in ((whole.recorder.values_from, d.recorder.values_from), (whole.recorder.values_to, d.recorder.values_to), (whole.residuals, d.residuals)):
            m = eqlist(eng, list(a), list(b))
            if m is not None:
                out.append((k, m))
    return out

for N in (3,4,5,6,7):
    eng = Engine(); symx.ENGINE = eng
    t=time.time()
    res = eng.explore(run)
    bad = [r for r in res if r]
    print(N, 'paths', eng.paths, 'queries', eng.nqueries, 'solver', round(eng.solver_time,2), 'wall', round(time.time()-t,2), 'violations', len(bad), bad[:1])
