import numpy as np, pandas as pd, warnings, collections, math
warnings.simplefilter('ignore')
import pylife.strength.meanstress as MS

def ray(R):
    """mean/amplitude ratio c of ray R: m = c*a ; R=-inf -> c=-1 ; R=1 -> +inf"""
    if R == -math.inf or R == math.inf: return -1.0
    return (1 + R) / (1 - R)

def oracle(a, m, segs, Rg):
    """segs: list of (c_lo, c_hi, M) sectors in c = m/a (increasing), iso-damage line slope -M in sector.
    walk from (m,a) to ray c_g."""
    cg = ray(Rg)
    c = m / a
    # R>1 region: c < -1 ; R in (-inf,0): -1<c<1 ; R in (0,1): c>1
    for _ in range(10):
        # find sector containing c (prefer sector in direction of travel when on border)
        cands = [s for s in segs if s[0] <= c <= s[1]]
        if cg > c: sec = max(cands, key=lambda s: s[1])
        elif cg < c: sec = min(cands, key=lambda s: s[0])
        else: return a
        lo, hi, M = sec
        target = min(cg, hi) if cg > c else max(cg, lo)
        # line: a' = a - M (m' - m); ray m' = t a'  -> a' = (a + M m)/(1 + M t)
        if math.isinf(target): raise ValueError
        a2 = (a + M * m) / (1 + M * target)
        m2 = target * a2
        a, m, c = a2, m2, target
        if c == cg: return a
    raise RuntimeError

def fkm_segs(M, M2):
    return [(-math.inf, -1.0, 0.0), (-1.0, 1.0, M), (1.0, math.inf, M2)]

rng = np.random.default_rng(7)
cnt = collections.Counter(); shown = 0
for t in range(3000):
    a = float(rng.integers(1, 9)); m = float(rng.integers(-12, 13))
    M = float(rng.choice([0.0, 0.1, 0.3, 0.6])); M2 = float(rng.choice([0.0, M/3, M]))
    Rg = float(rng.choice([-math.inf, -3., -1., -0.5, 0., 0.25, 0.5, 0.9, 2., 5.]))
    try:
        exp = oracle(a, m, fkm_segs(M, M2), Rg)
    except Exception as e:
        cnt['oracle-exc'] += 1; continue
    if exp <= 0: cnt['nonpos'] += 1; continue
    try:
        got = float(MS.fkm_goodman(np.array([a]), np.array([m]), M, M2, Rg)[0])
    except Exception as e:
        cnt[('impl-exc', type(e).__name__)] += 1
        if shown < 5: shown += 1; print('EXC', a, m, M, M2, Rg, repr(e)[:80])
        continue
    ok = abs(got - exp) <= 1e-9 * max(1, abs(exp))
    cnt[ok] += 1
    if not ok and shown < 12:
        shown += 1; print('MISMATCH a,m', a, m, 'c', m/a, 'M,M2', M, M2, 'Rg', Rg, 'got', got, 'exp', exp)
print(cnt)
