import time, numpy as np, z3, sys, pandas as pd, warnings
warnings.simplefilter('ignore')
import symx
from symx import *
import pylife.strength.meanstress as MS

def run(eng):
    a = SymReal(z3.Real('a')); eng.assume(a.e > 0)
    m = SymReal(z3.Real('m'))
    M = 0.3; M2 = 0.1
    pass
    res = MS.fkm_goodman(np.array([a], dtype=object), np.array([m], dtype=object), M, M2, RG)
    return res

RG = float(sys.argv[1])
eng = Engine(); symx.ENGINE = eng
t=time.time()
try:
    res = eng.explore(run)
except BaseException as e:
    import traceback; traceback.print_exc(); res=[]
print('paths', eng.paths, 'queries', eng.nqueries, 'solver', round(eng.solver_time,2), 'wall', round(time.time()-t,2))
for r in res[:12]: print(r)
