import z3, time
def prove(name, claim, *assumps, timeout=60000):
    s = z3.Solver(); s.set('timeout', timeout)
    s.add(*assumps); s.add(z3.Not(claim))
    t = time.time(); r = s.check(); print(f"{name}: {'PROVED' if r == z3.unsat else r} {time.time()-t:.2f}s")
R = z3.Real
k1, lS, lSD, lND = R('k1'), R('lS'), R('lSD'), R('lND')
lN = lND - k1*(lS - lSD)
lS2 = lSD + (-1/k1)*(lN - lND)
prove('inverse symbolic k', lS2 == lS, k1 > 1)
# two slopes with k2 symbolic: monotone
k2, lT = R('k2'), R('lT')
def N(l): return z3.If(l >= lSD, lND - k1*(l - lSD), lND - k2*(l - lSD))
prove('monotone', N(lS) >= N(lT), k1 > 1, k2 >= k1, lS <= lT)
# affine with symbolic a: four-point rule decision invariance
a, b = R('a'), R('b')
x = [R(f'x{i}') for i in range(4)]
y = [a*xi + b for xi in x]
def ab(e): return z3.If(e >= 0, e, -e)
def rule(v): return z3.And(ab(v[1]-v[2]) <= ab(v[0]-v[1]), ab(v[1]-v[2]) <= ab(v[2]-v[3]))
prove('affine-4pt', rule(x) == rule(y), a > 0)
