import time, numpy as np, z3, sys, pandas as pd, warnings
warnings.simplefilter('ignore')
import symx
from symx import *
from pylife.materiallaws.notch_approximation_law import Binned

F = z3.Function('f', z3.RealSort(), z3.RealSort())
G = z3.Function('g', z3.RealSort(), z3.RealSort())
def ap(fn, x):
    if isinstance(x, SymReal): return SymReal(fn(x.e))
    return SymReal(fn(symx._lift(x)))
class Law:
    ramberg_osgood_relation = None
    def stress(self, load, **kw): return load.map(lambda v: ap(F, v)) if isinstance(load, pd.Series) else ap(F, load)
    def strain(self, stress, load): return load.map(lambda v: ap(G, v)) if isinstance(load, pd.Series) else ap(G, load)
    def stress_secondary_branch(self, dl, **kw): return self.stress(dl)
    def strain_secondary_branch(self, ds, dl): return self.strain(ds, dl)

def run(eng):
    Lmax = SymReal(z3.Real('Lmax')); eng.assume(Lmax.e > 0)
    L = SymReal(z3.Real('L'))
    b = Binned(Law(), Lmax, NB)
    try:
        s = b.stress(L)
        return ('ok', s)
    except ValueError as e:
        return ('raise',)

NB = int(sys.argv[1])
eng = Engine(); symx.ENGINE = eng
t=time.time()
try:
    res = eng.explore(run)
except BaseException as e:
    import traceback; traceback.print_exc(); res=[]
print('paths', eng.paths, 'queries', eng.nqueries, 'solver', round(eng.solver_time,2), 'wall', round(time.time()-t,2))
for r in res[:12]: print(r)
