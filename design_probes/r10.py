import numpy as np, pandas as pd, warnings, collections, math
warnings.simplefilter('ignore')
from pylife.strength.fkm_nonlinear.damage_calculator import DamageCalculatorPRAM
import pylife.strength.woehler_fkm_nonlinear
rng = np.random.default_rng(11)
Z, Dl, d1, d2 = 500.0, 100.0, -0.3, -0.2
wc = pd.Series({'P_RAM_Z': Z, 'P_RAM_D': Dl, 'd_1': d1, 'd_2': d2}).woehler_P_RAM
def N_of(P): return 1e3 * (P / Z) ** (1 / d1) if P >= Z else 1e3 * (P / Z) ** (1 / d2)
cnt = collections.Counter(); shown = 0
for t in range(3000):
    n1 = rng.integers(0, 4); n2 = rng.integers(1, 4)
    P = np.concatenate([rng.choice([50., 150., 400., 600., 2000., 4000., 9000.], size=n1+n2)])
    closed = np.concatenate([rng.random(n1) < 0.5, np.ones(n2, bool)])
    run = np.array([1]*n1 + [2]*n2)
    coll = pd.DataFrame({'P_RAM': P, 'is_closed_hysteresis': closed, 'run_index': run, 'S_min': 0.0})
    d = DamageCalculatorPRAM(coll, wc)
    got_x, got_n = float(np.asarray(d.lifetime_n_times_load_sequence)), float(np.asarray(d.lifetime_n_cycles))
    Dm = [(1.0 if c else 0.5) / N_of(p) for p, c in zip(P, closed)]
    cum = np.cumsum(Dm)
    j = next((i for i, c in enumerate(cum) if c >= 1), None)
    if j is not None:
        exp_x, exp_n = 0.0, float(j)
    else:
        D1 = sum(Dm[:n1]); D2 = sum(Dm[n1:])
        x = (1 - D1) / D2
        exp_x, exp_n = x + 1, (x + 1) * n2
    ok = math.isclose(got_x, exp_x, rel_tol=1e-9) and math.isclose(got_n, exp_n, rel_tol=1e-9)
    cnt[ok] += 1
    if not ok and shown < 6:
        shown += 1; print(P.tolist(), closed.tolist(), run.tolist(), 'got', got_x, got_n, 'exp', exp_x, exp_n, 'cum', cum.tolist())
print(cnt)
