import numpy as np, pandas as pd, warnings, collections, itertools
import pylife.stress.rainflow as RF
rng = np.random.default_rng(9)
def run(D, x):
    d = D(recorder=RF.FullRecorder())
    with warnings.catch_warnings(record=True) as w:
        warnings.simplefilter('always')
        d.process(x)
    r = d.recorder
    return (list(r.values_from), list(r.values_to), list(map(int, r.index_from)), list(map(int, r.index_to)), list(map(float, d.residuals)), list(map(int, d.residual_index))), len(w)
cnt = collections.Counter(); shown = 0
for t in range(5000):
    n = rng.integers(3, 9)
    x = rng.integers(-3, 4, size=n).astype(float)
    k = rng.integers(1, 3)
    pos = sorted(rng.choice(np.arange(1, n), size=min(k, n-1), replace=False))  # insertion positions in clean coords (interior)
    y = list(x); orig_index = list(range(n))
    # build signal with NaNs inserted; map clean index -> original index
    full = []; mp = []
    for i, v in enumerate(x):
        for p in pos:
            if p == i: full.append(np.nan)
        mp.append(len(full)); full.append(v)
    full = np.array(full)
    for D in (RF.ThreePointDetector, RF.FourPointDetector):
        a, wa = run(D, x); b, wb = run(D, full)
        exp = (a[0], a[1], [mp[i] for i in a[2]], [mp[i] for i in a[3]], a[4], [mp[i] for i in a[5]])
        ok = (tuple(map(tuple, b)) == tuple(map(tuple, exp))) and wb >= 1
        cnt[(D.__name__, ok)] += 1
        if not ok and shown < 6:
            shown += 1; print(D.__name__, full.tolist(), '\n got', b, '\n exp', exp, 'warn', wb)
print(cnt)
