import numpy as np, pandas as pd, warnings
warnings.simplefilter('ignore')
import pylife.strength.miner, pylife.strength.fatigue, pylife.stress.collective
wc = pd.Series({'k_1': 5.0, 'ND': 1e6, 'SD': 100.0})
def check(amps, cyc, rule):
    coll = pd.DataFrame({'range': 2*np.array(amps), 'mean': 0.0, 'cycles': np.array(cyc, dtype=float)}).load_collective
    acc = getattr(wc, rule)
    Ng = acc.gassner_cycles(coll)
    total = coll.cycles.sum()
    scaled = pd.DataFrame({'range': 2*np.array(amps), 'mean': 0.0, 'cycles': np.array(cyc, dtype=float) * Ng / total}).load_collective
    curve = wc.woehler.miner_elementary() if 'elementary' in rule else wc.woehler.miner_haibach()
    D = curve.to_pandas().fatigue.damage(scaled).sum()
    print(rule, amps, cyc, 'Ng', float(Ng), 'damage', float(D))
for rule in ('gassner_miner_elementary', 'gassner_miner_haibach'):
    check([200., 150., 80.], [1., 10., 100.], rule)
    check([200., 150., 80.], [0., 10., 100.], rule)
    check([200., 150., 80.], [1., 0., 100.], rule)
    check([200., 150., 80.], [1., 10., 0.], rule)
