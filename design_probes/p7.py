import time, numpy as np, z3, sys, pandas as pd, warnings, traceback
warnings.simplefilter('ignore')
import symx
from symx import *
import pylife.stress.collective, pylife.mesh

def explore(name, run):
    eng = Engine(); symx.ENGINE = eng
    t=time.time()
    try:
        res = eng.explore(run)
    except BaseException as e:
        tb = traceback.format_exc().splitlines()
        print(name, 'FAILED', tb[-1]); print('\n'.join(l for l in tb if '/repo/' in l or 'pandas/core' in l)[-600:])
        return
    print(name, 'paths', eng.paths, 'queries', eng.nqueries, 'solver', round(eng.solver_time,2), 'wall', round(time.time()-t,2))
    for r in res[:3]: print('   ', r)

def lc(eng):
    f = reals('f', 2); t = reals('t', 2)
    df = pd.DataFrame({'from': np.array(f, dtype=object), 'to': np.array(t, dtype=object)})
    c = df.load_collective
    return [list(c.amplitude), list(c.meanstress), list(c.upper), list(c.lower), list(c.R)]


def lc_scale(eng):
    f = reals('f', 2); t = reals('t', 2); k = SymReal(z3.Real('k'))
    df = pd.DataFrame({'from': np.array(f, dtype=object), 'to': np.array(t, dtype=object)})
    c = df.load_collective.scale(k).shift(3.0)
    return [list(c.amplitude), list(c.meanstress)]


def hs(eng):
    v = reals('v', 4)
    idx = pd.MultiIndex.from_tuples([(1,1),(1,2),(2,2),(2,3)], names=['element_id','node_id'])
    df = pd.DataFrame({'x': 0.0, 'y': 0.0, 'z': 0.0, 'val': np.array(v, dtype=object)}, index=idx)
    return list(df.hotspot.calc('val', 0.9))


def pram(eng):
    import pylife.strength.damage_parameter as DP
    Sa = reals('Sa', 1); Sm = reals('Sm', 1); ea = reals('ea', 1)
    coll = pd.DataFrame({'S_a': np.array(Sa, dtype=object), 'S_m': np.array(Sm, dtype=object), 'epsilon_a': np.array(ea, dtype=object)})
    ap = pd.Series({'MatGroupFKM': 'Steel', 'R_m': 600.0, 'E': 206e3})
    return list(DP.P_RAM(coll, ap).collective['P_RAM'])
explore('P_RAM', pram)

def dmg(eng):
    from pylife.strength.fkm_nonlinear.damage_calculator import DamageCalculatorPRAM
    import pylife.strength.woehler_fkm_nonlinear
    N = reals('N', 4)
    for n in N: eng.assume(n.e > 0)
    coll = pd.DataFrame({'P_RAM': np.array(N, dtype=object), 'is_closed_hysteresis': [False, True, True, True], 'run_index': [1,1,2,2], 'S_min': 0.0})
    wc = pd.Series({'P_RAM_Z': 500.0, 'P_RAM_D': 100.0, 'd_1': -0.3, 'd_2': -0.2}).woehler_P_RAM
    d = DamageCalculatorPRAM(coll, wc)
    return d.lifetime_n_cycles
explore('DamageCalculatorPRAM', dmg)
