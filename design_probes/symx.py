"""Probe prototype: re-execution based symbolic executor with z3 (scratch, not the framework)."""
import z3, math, time
from fractions import Fraction

class Infeasible(BaseException):
    pass

class Engine:
    def __init__(self):
        self.solver = z3.Solver(); self.solver.set('timeout', 10000)
        self.trail = []      # list of [decision(bool), other_side_pending(bool), expr]
        self.pos = 0
        self.nqueries = 0
        self.memo = {}; self.keep = []; self.hits = 0
        self.epochs = [0]; self.epoch_ctr = 0
        self.solver_time = 0.0
        self.paths = 0

    def check(self, *extra):
        t = time.time()
        self.nqueries += 1
        r = self.solver.check(*extra)
        self.solver_time += time.time() - t
        return r

    def branch(self, expr):
        expr = z3.simplify(expr)
        if z3.is_true(expr):
            return True
        if z3.is_false(expr):
            return False
        key = expr.get_id()
        hit = self.memo.get(key)
        if hit is not None and hit[1] <= self.pos and hit[2] == self.epoch_at(hit[1]):
            self.hits += 1
            return hit[0]
        if self.pos < len(self.trail) and self.trail[self.pos][2].get_id() == key:
            d = self.trail[self.pos][0]
            self.pos += 1
            self.memo[key] = (d, self.pos, self.epoch_at(self.pos)); self.keep.append(expr)
            return d
        assert self.pos == len(self.trail), "non-deterministic replay"
        # new decision: implied?
        can_t = self.check(expr) == z3.sat
        can_f = self.check(z3.Not(expr)) == z3.sat
        if can_t != can_f:
            self.memo[key] = (can_t, self.pos, self.epoch_at(self.pos)); self.keep.append(expr)
            return can_t
        if can_t:
            self.trail.append([True, can_f, expr])
            self.solver.push(); self.solver.add(expr)
            self.pos += 1
            self.epoch_ctr += 1; self.epochs = self.epochs[:self.pos] + [self.epoch_ctr]
            return True
        elif can_f:
            self.trail.append([False, False, expr])
            self.solver.push(); self.solver.add(z3.Not(expr))
            self.pos += 1
            self.epoch_ctr += 1; self.epochs = self.epochs[:self.pos] + [self.epoch_ctr]
            return False
        raise Infeasible()

    def epoch_at(self, depth):
        return self.epochs[depth] if depth < len(self.epochs) else -1

    def assume(self, expr):
        if not self.branch(expr):
            raise Infeasible()

    def check_assert(self, expr, what=""):
        """assert expr holds on this path for all values; returns model if violated"""
        if self.check(z3.Not(expr)) == z3.sat:
            return self.solver.model()
        return None

    def explore(self, fn, max_paths=10**9):
        results = []
        while True:
            self.pos = 0
            try:
                r = fn(self)
                results.append(r)
                self.paths += 1
            except Infeasible:
                pass
            # backtrack
            while self.trail and not self.trail[-1][1]:
                self.trail.pop(); self.solver.pop()
            if not self.trail or self.paths >= max_paths:
                break
            d, _, e = self.trail[-1]
            self.solver.pop()
            self.trail[-1] = [not d, False, e]
            self.solver.push(); self.solver.add(z3.Not(e) if d else e)
            self.epoch_ctr += 1; self.epochs = self.epochs[:len(self.trail)] + [self.epoch_ctr]
        return results

ENGINE = None

def _lift(x):
    if isinstance(x, SymReal):
        return x.e
    if isinstance(x, bool):
        raise TypeError("bool in arithmetic")
    if isinstance(x, int):
        return z3.RealVal(x)
    if isinstance(x, float):
        if math.isinf(x) or math.isnan(x):
            return None
        return z3.RealVal(str(Fraction(x)))
    import numpy as np
    if isinstance(x, (np.integer,)):
        return z3.RealVal(int(x))
    if isinstance(x, (np.floating,)):
        return _lift(float(x))
    return NotImplemented

class SymBool:
    def __init__(self, e): self.e = e
    def __bool__(self): return ENGINE.branch(self.e)
    def __and__(self, o): return SymBool(z3.And(self.e, o.e if isinstance(o, SymBool) else z3.BoolVal(bool(o))))
    __rand__ = __and__
    def __or__(self, o): return SymBool(z3.Or(self.e, o.e if isinstance(o, SymBool) else z3.BoolVal(bool(o))))
    __ror__ = __or__
    def __invert__(self): return SymBool(z3.Not(self.e))
    def __int__(self): return int(bool(self))
    def __index__(self): return int(bool(self))
    def __repr__(self): return f"SymBool({self.e})"

class _Op:
    def __init__(self, f, sign): self.f=f; self.sign=sign
    def __call__(self, a, b): return self.f(a, b)
LT=_Op(lambda a,b:a<b, lambda p,n,z:n)
LE=_Op(lambda a,b:a<=b, lambda p,n,z:z3.Or(n,z))
GT=_Op(lambda a,b:a>b, lambda p,n,z:p)
GE=_Op(lambda a,b:a>=b, lambda p,n,z:z3.Or(p,z))
EQ=_Op(lambda a,b:a==b, lambda p,n,z:z)
NE=_Op(lambda a,b:a!=b, lambda p,n,z:z3.Not(z))

class SymReal:

    def __init__(self, e): self.e = e
    def _special(self, o, kind, swap):
        if math.isnan(o): return o
        if kind == 'add': return o
        if kind == 'sub': return o if swap else -o
        if kind == 'mul':
            if ENGINE.branch(self.e > 0): return o
            if ENGINE.branch(self.e < 0): return -o
            return float('nan')
        raise NotImplementedError(kind)
    def _bin(self, o, f, swap=False, kind=None):
        oe = _lift(o)
        if oe is NotImplemented: return NotImplemented
        if oe is None:  # inf / nan
            return self._special(o, kind, swap)
        return SymReal(z3.simplify(f(oe, self.e) if swap else f(self.e, oe)))
    def __add__(self, o): return self._bin(o, lambda a, b: a + b, kind='add')
    def __radd__(self, o): return self._bin(o, lambda a, b: a + b, True, kind='add')
    def __sub__(self, o): return self._bin(o, lambda a, b: a - b, kind='sub')
    def __rsub__(self, o): return self._bin(o, lambda a, b: a - b, True, kind='sub')
    def __mul__(self, o):
        if isinstance(o, SymReal) and not z3.is_rational_value(o.e) and not z3.is_rational_value(self.e):
            r = SymReal(self.e * o.e); r.factors = (self.e, o.e); return r
        return self._bin(o, lambda a, b: a * b, kind='mul')
    def __rmul__(self, o): return self._bin(o, lambda a, b: a * b, True, kind='mul')
    def __truediv__(self, o):
        oe = _lift(o)
        if oe is NotImplemented: return NotImplemented
        if oe is None:
            if math.isnan(o): return float('nan')
            return 0.0
        return _div(self.e, oe)
    def __rtruediv__(self, o):
        oe = _lift(o)
        if oe is NotImplemented: return NotImplemented
        if oe is None:
            if math.isnan(o): return float('nan')
            return o if ENGINE.branch(self.e > 0) else (-o if ENGINE.branch(self.e < 0) else float('nan'))  # inf/0 -> inf actually
        return _div(oe, self.e)
    def __pow__(self, o):
        if isinstance(o, (int, float)) and float(o).is_integer() and 0 <= o <= 6:
            r = 1
            for _ in range(int(o)): r = self * r
            return r
        if isinstance(o, (int, float)) and float(o).is_integer() and -6 <= o < 0:
            return 1 / (self ** (-o))
        oe = _lift(o)
        ENGINE.assume(self.e > 0)   # probe only
        return SymReal(POW(self.e, oe))
    def sqrt(self):
        if ENGINE.branch(self.e < 0): return float('nan')
        global _fresh
        _fresh += 1
        r = z3.Real(f"sqrt!{_fresh}")
        ENGINE.solver.add(r >= 0, r * r == self.e)   # definitional
        return SymReal(r)
    def astype(self, t): return self
    def __neg__(self): return SymReal(-self.e)
    def __pos__(self): return self
    def __abs__(self): return SymReal(z3.simplify(z3.If(self.e >= 0, self.e, -self.e)))
    def _cmp(self, o, f, inf_pos, inf_neg):
        oe = _lift(o)
        if oe is NotImplemented: return NotImplemented
        if oe is not None and getattr(self, 'factors', None) is not None and z3.is_rational_value(oe) and oe.as_fraction() == 0:
            a, b = self.factors
            pos = z3.Or(z3.And(a > 0, b > 0), z3.And(a < 0, b < 0))
            neg = z3.Or(z3.And(a > 0, b < 0), z3.And(a < 0, b > 0))
            zero = z3.Or(a == 0, b == 0)
            return SymBool(f.sign(pos, neg, zero))
        if oe is None:
            if math.isnan(o): return False
            return inf_pos if o > 0 else inf_neg
        return SymBool(f(self.e, oe))
    def __lt__(self, o): return self._cmp(o, LT, True, False)
    def __le__(self, o): return self._cmp(o, LE, True, False)
    def __gt__(self, o): return self._cmp(o, GT, False, True)
    def __ge__(self, o): return self._cmp(o, GE, False, True)
    def __eq__(self, o): return self._cmp(o, EQ, False, False)
    def __ne__(self, o): return self._cmp(o, NE, True, True)
    def __hash__(self): raise TypeError("symbolic value hashed")
    def __float__(self): raise TypeError("concretisation of symbolic real requested (__float__)")
    def __repr__(self): return f"S({self.e})"
    # numpy object-dtype ufunc method hooks
    def sign(self):
        if self > 0: return 1.0
        if self < 0: return -1.0
        return 0.0
    def fabs(self): return abs(self)
    def conjugate(self): return self

_fresh = 0
POW = z3.Function('pow', z3.RealSort(), z3.RealSort(), z3.RealSort())
def _div(a, b):
    if ENGINE.branch(b == 0):
        if ENGINE.branch(a > 0): return float('inf')
        if ENGINE.branch(a < 0): return float('-inf')
        return float('nan')
    return SymReal(z3.simplify(a / b))

def reals(prefix, n):
    return [SymReal(z3.Real(f"{prefix}{i}")) for i in range(n)]
