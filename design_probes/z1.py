import z3, time
def prove(name, claim, *assumps, timeout=60000):
    s = z3.Solver(); s.set('timeout', timeout)
    s.add(*assumps); s.add(z3.Not(claim))
    t = time.time(); r = s.check(); print(f"{name}: {'PROVED' if r == z3.unsat else r} {time.time()-t:.2f}s")
R = z3.Real
# 1. Hooke 3D: stress(strain(s)) == s
E, nu = R('E'), R('nu')
s11, s22, s33 = R('s11'), R('s22'), R('s33')
e11 = 1/E*(s11 - nu*(s22+s33)); e22 = 1/E*(s22 - nu*(s11+s33)); e33 = 1/E*(s33 - nu*(s11+s22))
f1 = E/((1+nu)*(1-2*nu)); f2 = 1-nu
t11 = f1*(f2*e11 + nu*(e22+e33))
prove('hooke3d', t11 == s11, E > 0, nu > -1, nu < 0.5)
# plane strain vs 3D at e33 = 0
Et = E/(1-nu*nu); nut = nu/(1-nu)
e11_, e22_ = R('e11'), R('e22')
ps11 = Et/(1-nut*nut)*(e11_ + nut*e22_)
d11 = f1*(f2*e11_ + nu*(e22_+0))
prove('planestrain', ps11 == d11, E > 0, nu > -1, nu < 0.5)
# 2. mises rotation about z
c, s = R('c'), R('s')
a11,a22,a33,a12,a13,a23 = [R(n) for n in 'a11 a22 a33 a12 a13 a23'.split()]
def msq(s11,s22,s33,s12,s13,s23): return s11*s11+s22*s22+s33*s33-s11*s22-s11*s33-s22*s33+3*(s12*s12+s13*s13+s23*s23)
# R = [[c,-s,0],[s,c,0],[0,0,1]]; S' = R S R^T
b11 = c*c*a11 - 2*c*s*a12 + s*s*a22
b22 = s*s*a11 + 2*c*s*a12 + c*c*a22
b12 = c*s*a11 + (c*c - s*s)*a12 - c*s*a22
b13 = c*a13 - s*a23; b23 = s*a13 + c*a23; b33 = a33
prove('mises-rotz', msq(b11,b22,b33,b12,b13,b23) == msq(a11,a22,a33,a12,a13,a23), c*c + s*s == 1)
# 3. mises <= tresca <= 2/sqrt3 mises with eigenvalues
l1,l2,l3 = R('l1'),R('l2'),R('l3'); m = R('m'); q = R('q')
ms = ((l1-l2)*(l1-l2)+(l2-l3)*(l2-l3)+(l1-l3)*(l1-l3))/2
prove('mises<=tresca', m <= l3-l1, l1<=l2, l2<=l3, m>=0, m*m==ms)
prove('tresca<=2/sqrt3 mises', (l3-l1)*q <= 2*m, l1<=l2, l2<=l3, m>=0, m*m==ms, q>0, q*q==3)
# vieta: mises^2 from components equals from eigenvalues
I1 = a11+a22+a33
I2 = a11*a22+a11*a33+a22*a33-a12*a12-a13*a13-a23*a23
prove('mises-vieta', msq(a11,a22,a33,a12,a13,a23) == ms, l1+l2+l3 == I1, l1*l2+l1*l3+l2*l3 == I2)
# 4. gassner elementary k=3, 3 classes
S = [R(f'S{i}') for i in range(3)]; h = [R(f'h{i}') for i in range(3)]; SD, ND = R('SD'), R('ND')
k = 3
def p(x, k):
    r = 1
    for _ in range(k): r = r*x
    return r
Smax = R('Smax')
H = sum(h)
V = sum(h[i]*p(S[i]/Smax, k) for i in range(3))/H
A = 1/V
Ng = ND*p(SD/Smax, k)*A      # N(Smax) = ND (Smax/SD)^-k
D = sum((h[i]/H*Ng)/(ND*p(SD/S[i], k)) for i in range(3))
ass = [x > 0 for x in S+h+[SD,ND,Smax]] + [Smax >= S[0], Smax >= S[1], Smax >= S[2], z3.Or(Smax==S[0],Smax==S[1],Smax==S[2])]
prove('gassner-k3', D == 1, *ass)
