import numpy as np, pandas as pd, warnings, collections, itertools
warnings.simplefilter('ignore')
import pylife.mesh
rng = np.random.default_rng(13)
def oracle(index, vals, frac):
    mx = max(vals); above = [v >= frac * mx for v in vals]
    n = len(vals); parent = list(range(n))
    def find(i):
        while parent[i] != i: i = parent[i]
        return i
    for i in range(n):
        for j in range(i+1, n):
            if above[i] and above[j] and (index[i][0] == index[j][0] or index[i][1] == index[j][1]):
                parent[find(i)] = find(j)
    comps = collections.defaultdict(list)
    for i in range(n):
        if above[i]: comps[find(i)].append(i)
    order = sorted(comps.values(), key=lambda c: -max(vals[i] for i in c))
    lab = [0]*n
    for k, c in enumerate(order, 1):
        for i in c: lab[i] = k
    return lab
cnt = collections.Counter(); shown = 0
for t in range(3000):
    ne = rng.integers(1, 5)
    rows = []
    for e in range(ne):
        eid = int(rng.choice([3, 7, 11, 20, 21])) if False else [3, 7, 11, 20][e]
        nodes = rng.choice([1, 2, 5, 6, 9, 12, 13], size=rng.integers(2, 4), replace=False)
        rows += [(eid, int(nn)) for nn in nodes]
    rng.shuffle(rows)
    vals = rng.permutation(len(rows)).astype(float) + 1  # distinct
    idx = pd.MultiIndex.from_tuples(rows, names=['element_id', 'node_id'])
    df = pd.DataFrame({'x': 0., 'y': 0., 'z': 0., 'val': vals}, index=idx)
    frac = float(rng.choice([0.3, 0.5, 0.9]))
    got = list(df.hotspot.calc('val', frac))
    exp = oracle(rows, list(vals), frac)
    ok = got == exp
    cnt[ok] += 1
    if not ok and shown < 5:
        shown += 1; print(rows, vals.tolist(), frac, 'got', got, 'exp', exp)
print(cnt)
