#!/usr/bin/env python3
"""Round 5: copies the verified seeded defects from /tmp/seed5_<P>/SEED/<k> into /verif/seeded/<P>-<id>/ (logs in /tmp/finalseeds5)."""
import json, os, re, shutil
IDS = {"C01": (5, 6), "C04": (5, 6), "C05": (5, 6), "C09": (5, 6), "C18": (3, 4), "C19": (5, 6)}
FIRST = {
 "C01-5": "VIOLATION", "C01-6": "VIOLATION",
 "C04-5": "missed by ./check C04 (scalar sequences); missed by ./check C05 (load step labels always ascending)", "C04-6": "missed (exit 0; float64 input only)",
 "C05-5": "missed (exit 0; multi-point load step labels always ascending, proper reversal sequences only)",
 "C05-6": "not detected (needs a history that re-uses load step labels across process() calls)",
 "C09-5": "exit 3 (np.piecewise has no object loop)", "C09-6": "exit 3 (np.divide(out=, where=) has no object loop; Series.to_numpy(dtype=float))",
 "C18-3": "VIOLATION", "C18-4": "VIOLATION",
 "C19-5": "missed (exit 0; no node whose neighbours are coplanar)", "C19-6": "missed (exit 0; one gradient_of call per operator object)"}
STRENGTHENED = {
 "C04-5": "C05: multi-point cases with load step labels that do not ascend; reported by ./check C05 (C04 drives scalar sequences)",
 "C04-6": "int8 input arrays (whole-number loads up to +-100); verdict by witness replay on the real code",
 "C05-5": "both HCM passes on any samples with load step labels in any order, several points vs each alone; this also exposed a regression of the repair be8c19e (corrected in 0421c51)",
 "C05-6": "none: re-used load step labels are outside the claim - the unchanged tree itself fails on 30 resp. 19 of 120 such histories (pre-existing, DESIGN.md section 8 observations)",
 "C09-5": "piecewise facade; integer cycle numbers (scalar and list) in the curve cases, verdict by witness replay",
 "C09-6": "divide/to_numpy facades; hysteresis tables may contain P_RAM = 0 rows",
 "C19-5": "tetrahedron whose apex lies over a flat base (least-squares operator)", "C19-6": "the same Gradient3D operator asked again after the mesh was stretched in place"}
SUMM = [l.split() for l in open("/tmp/finalseeds5/summary.txt") if l.startswith("r5_")]
for p, ids in IDS.items():
    for k, n in zip((1, 2), ids):
        sid = "%s-%d" % (p, n)
        src = "/tmp/seed5_%s/SEED/%d" % (p, k)
        dst = "/verif/seeded/%s" % sid
        os.makedirs(dst, exist_ok=True)
        shutil.copy(src + "/patch.diff", dst + "/patch.diff")
        shutil.copy(src + "/demo.py", dst + "/demo.py")
        notes = open(src + "/notes.txt").read()
        res = open("/tmp/seedlogs/r5_%s_%d.result" % (p, k)).read().split("\n")
        checks = {}
        for f in SUMM:
            if f[0] in ("r5_%s_%d" % (p, k), "r5_%s_%d_viaC05" % (p, k)):
                out = open("/tmp/finalseeds5/%s.log" % f[0]).read()
                checks["./check %s --tier quick" % f[1].split("=")[1]] = {
                    "exit_code": int(f[2].split("=")[1]), "violation_lines": int(f[4].split("=")[1]),
                    "violated_claims": sorted(set(re.findall(r"violated claim '([^']+)'", out)))}
        meta = {
            "seed": sid, "property": p, "round": 5,
            "what": " ".join(notes.strip().split("\n")[:2])[:400],
            "author": "fresh sub-agent that saw only the property text, the list of earlier seed topics to avoid, and its own scratch worktree",
            "verified_by_me": {
                "worktree": "/tmp/seed5_%s (git worktree of /repo, removed afterwards)" % p,
                "demo_without_patch_exit": int(res[0].split("=")[1]), "demo_with_patch_exit": int(res[1].split("=")[1]),
                "full_suite_with_patch": res[2].strip(), "baseline": "1480 passed, 9 failed on the unchanged tree (the same 9)"},
            "check": {"command": "git -C /repo apply seeded/%s/patch.diff && ./check <id> --tier quick ; git -C /repo checkout -- ." % sid,
                      "first_confrontation": FIRST[sid], "harness_strengthened": STRENGTHENED.get(sid), "final": checks},
            "notes": notes}
        json.dump(meta, open(dst + "/meta.json", "w"), indent=1)
        print(sid, {c: v["exit_code"] for c, v in checks.items()})
