import sys, json, time
sys.set_int_max_str_digits(0)
from pvx import run
H = run._load(sys.argv[1])
if hasattr(H,'prepare'): H.prepare('quick')
case = json.loads(sys.argv[2]); tmo = int(sys.argv[3]) if len(sys.argv)>3 else 10000
r = run.run_task({"harness": sys.argv[1], "case": case, "opts": {"timeout_ms":tmo,"task_budget_s":3000,"witness_every":1}, "findings_open": []})
print(json.dumps({k:v for k,v in r.items() if k in('stats','errors','wall_s','complete','violations')}, indent=0, default=str)[:3000])
