#!/usr/bin/env python3
"""Copies the verified seeded defects from their scratch worktrees into /verif/seeded/<id>/ with a meta.json."""
import json, os, re, shutil, sys
FIRST = {  # outcome of the first confrontation, before any harness was strengthened (see DESIGN.md section 9)
 "C01-1": "VIOLATION", "C01-2": "missed (exit 0)", "C02-1": "exit 3 (inconclusive)", "C02-2": "exit 3 (translator refuses `cdef float`)",
 "C03-1": "missed (exit 0)", "C03-2": "VIOLATION", "C07-1": "missed (exit 0)", "C07-2": "missed (exit 0)",
 "C11-1": "missed (exit 0)", "C11-2": "VIOLATION", "C12-1": "VIOLATION", "C12-2": "missed (exit 0)",
 "C14-1": "missed (exit 0)", "C14-2": "missed (exit 0)", "C16-1": "missed (exit 0)", "C16-2": "missed (exit 0)",
 "C17-1": "exit 3 (harness error: stub assumed two eigvalsh calls)", "C17-2": "VIOLATION",
 "C04-1": "VIOLATION", "C04-2": "missed (exit 0; needs 5 samples, quick bound was 4)", "C05-1": "VIOLATION", "C05-2": "VIOLATION",
 "C08-1": "missed (exit 0)", "C08-2": "VIOLATION", "C09-1": "exit 3 (counterexample over the stub not realisable as parameters)", "C09-2": "VIOLATION",
 "C18-1": "not detected (analyzer clause outside the claimed part)", "C18-2": "not detected (analyzer clause outside the claimed part)",
 "C19-1": "not detected (mesh mapping outside the claimed part)", "C19-2": "missed (exit 0; field values were assumed positive)"}
STRENGTHENED = {
 "C01-2": "chunk_local_index is now queried after every chunk (streaming use)", "C02-1": "np facade with isclose in general.py; dyadic counterexample grid down to 2**-30",
 "C03-1": "NaN cases with 3 and 4 NaNs (n = 7, 8)", "C07-1": "multi-point cases with non-ascending node ids", "C07-2": "multi-point cases with a negative load factor",
 "C11-1": "Gassner clause also for curves given for another failure probability with scatter", "C12-2": "range/mean matrix layout whose ranges fall on result class edges",
 "C14-1": "2-D histograms with the target levels in either order", "C14-2": "source histograms with permuted class order", "C16-1": "array-valued components incl. a leading dimension of 3",
 "C17-1": "eigvalsh stub made a function of its argument (independent of the number of calls)",
 "C04-2": "quick bound raised to 5 samples", "C08-1": "curves given for a native failure probability of 10 % queried at the default 50 %",
 "C09-1": "the auxiliary power values are registered as inputs with monotonicity axioms and mapped back to parameters P_i before the concrete replay (realise)",
 "C19-2": "field values of any sign"}
for p in ("C01", "C02", "C03", "C04", "C05", "C07", "C08", "C09", "C11", "C12", "C14", "C16", "C17", "C18", "C19"):
    for k in (1, 2):
        sid = "%s-%d" % (p, k)
        src = "/tmp/seed_%s/SEED/%d" % (p, k)
        dst = "/verif/seeded/%s" % sid
        os.makedirs(dst, exist_ok=True)
        shutil.copy(src + "/patch.diff", dst + "/patch.diff")
        shutil.copy(src + "/demo.py", dst + "/demo.py")
        notes = open(src + "/notes.txt").read()
        res = open("/tmp/seedlogs/%s_%d.result" % (p, k)).read().split("\n")
        log = "/tmp/seedruns/%s_%d_quick.log" % (p, k)
        out = open(log).read() if os.path.exists(log) else ""
        nviol = len(re.findall(r"^VIOLATION", out, re.M))
        labels = sorted(set(re.findall(r"violated claim '([^']+)'", out)))
        summ = [l for l in open("/tmp/seedruns/summary.txt").read().split("\n") if l.startswith("%s %d " % (p, k))]
        exitcode = int(re.search(r"exit=(\d+)", summ[-1]).group(1)) if summ else None
        meta = {
            "seed": sid, "property": p,
            "what": notes.strip().split("\n")[0],
            "needs_to_manifest": " ".join(l.strip() for l in notes.split("\n") if re.match(r"\s*(Manifests|Trigger|When it shows)", l))[:900] or notes[:600],
            "author": "fresh sub-agent that saw only the property text and its own scratch worktree",
            "verified_by_me": {
                "worktree": "/tmp/seed_%s (git worktree of /repo, removed afterwards)" % p,
                "demo_without_patch_exit": int(res[0].split("=")[1]), "demo_with_patch_exit": int(res[1].split("=")[1]),
                "full_suite_with_patch": res[2].strip(), "baseline": "1480 passed, 9 failed on the unchanged tree (the same 9)",
                "commands": ["git apply SEED/%d/patch.diff" % k, "PYTHONPATH=<wt>/src /venv/bin/python SEED/%d/demo.py" % k,
                             "PYTHONPATH=<wt>/src /venv/bin/python -m pytest -q -p no:cacheprovider --timeout=900 --continue-on-collection-errors"]},
            "check": {"command": "git -C /repo apply seeded/%s/patch.diff && ./check %s --tier quick ; git -C /repo checkout -- ." % (sid, p),
                      "first_confrontation": FIRST[sid], "harness_strengthened": STRENGTHENED.get(sid),
                      "final_exit_code": exitcode, "final_violation_lines": nviol, "violated_claims": labels},
            "notes": notes,
        }
        json.dump(meta, open(dst + "/meta.json", "w"), indent=1)
        print(sid, exitcode, nviol, labels[:3])
