#!/usr/bin/env python3
"""Regenerates /verif/MANIFEST.json from the table below (single source of truth for the manifest)."""
import json, os
HERE = os.path.dirname(os.path.dirname(os.path.abspath(__file__)))
TECH = ("dynamic symbolic execution of the real code on z3 (exhaustive path partition within the bound, "
        "claims as unsat queries, replay of counterexamples and path witnesses on the compiled code)")

CHECKS = {
 "C01": dict(
   text="Bounded exhaustive symbolic check: for every real-valued signal up to the length bound and every two-way split of every prefix (flush on/off) the three detectors produce equal outputs AND equal complete internal state, which by induction over chunks covers every partition; chunk bookkeeping checked for every reported index; all partitions additionally enumerated directly for short signals.",
   note="Bound: signal length <= 5 (quick) / 8 (thorough). Floats modelled as reals. Cython kernels executed as a mechanical Python translation of the current .pyx text, tied to the binary by per-path witness replay against a module compiled from the same text. Trusted: z3, numpy/pandas object-dtype semantics (validated by the witness replays), the translator.",
   design="6 C01"),
 "C02": dict(
   text="Bounded exhaustive symbolic check against executable definitions: for every real-valued signal up to the length bound (every tie pattern of samples and ranges is a path) find_turns equals the turning-point definition, the four-point detector equals the textbook stack rule (cycles in order with indices, residual), the three-point detector yields the same multiset and residual, the FKM detector equals the Clormann/Seeger HCM rule; every turning point is used exactly once and every index addresses its value.",
   note="Bound: signal length 2..6 (quick) / 2..9 (thorough), process() without flush. Oracles in pvx/oracles/rainflow.py are part of the trusted base. Floats as reals; kernels via translation + witness replay on a module compiled from the current .pyx.",
   design="6 C02"),
 "C03": dict(
   text="Bounded exhaustive symbolic check of relations between runs of the real detectors: refinement by interior non-reversal samples (values symbolic between neighbours, inclusive), negation, positive affine map (symbolic offset, scale from a finite set), NaN removal with index correction (all interior NaN placements up to the bound), Series with five index types vs. plain array.",
   note="Bounds: base length 3..5 + 1 inserted sample (quick) / 3..6 + 1 and 3..4 + 2 (thorough); negation/affine length 2..5 / 2..7; NaN: length 4..5 / 4..6 with <= 2 NaN; scale in {0.5, 2, 3, 1000}. Floats as reals.",
   design="6 C03"),
 "C07": dict(
   text="Bounded exhaustive symbolic check of the real Binned class (table construction and all four look-up functions; scalar, Series and multi-point branches) against the upper-class-edge rule: symbolic L_max > 0 and load(s), wrapped law as uninterpreted functions, so the position of the load relative to every class edge (incl. exactly on an edge, zero, both signs, out of range) is a path; result term == oracle term, ValueError exactly outside the initialised range, never under-estimates, less than one class, monotone, Series == scalar, multi-point == per point.",
   note="Bound: bin counts 1..4 (quick) / 1..8, 16, 100 (thorough; Series/monotone up to 8, multi-point up to 4 bins, ratios 1/2, 2, 3). Wrapped law is a contract stub (uninterpreted functions / identity law). Class edges are (k/n)*L_max (the real table holds fl(k/n)*L_max, <= 1 ulp away); floats modelled as reals.",
   design="6 C07"),
 "C14": dict(
   text="Bounded exhaustive symbolic check of the accounting: LoadCollective derived quantities (upper-lower = 2 amplitude, mean, R with its IEEE cases, cycles), equivalence of range/mean and from/to descriptions, scale/shift with symbolic operand leaving cycles untouched; histogramming (range_histogram, histogram, per element along an axis, LoopValueRecorder.histogram) with symbolic cycles executed through the real numpy.histogram / histogramdd Python code on object arrays (sort, searchsorted and comparison loops call the symbolic comparison operators): classes are the requested gap-free limits, every class count lies between the number of cycles strictly inside and inside-or-on-the-limits of the class, counts sum to the number of cycles inside the covered range, range histogram == marginal of the range/mean histogram when all means are covered; rebin_histogram / combine_histogram with symbolic non-negative counts over an enumerated family of gap-free binnings (regular, irregular, single class, identical, refining, coarsening, integer bin count, permuted source, 2-D): total conserved, identity, composition through a refining binning, grand total and per-class sums of a sum-combination.",
   note="Bounds: 1..2 (quick) / 1..3 (thorough) collective rows; histogrammed collectives 1..2 / 1..3 cycles with 1..2 / 1..3 classes given as edge list, IntervalIndex, IntervalArray (class limits concrete: IntervalIndex is float64-backed), number of bins 1..3 with two concrete rows spanning the data and 1 / 2 symbolic rows, repeated index labels; re-binning over binnings with 1..2 / 1..4 classes on the grid {0,0.5,1,2,3,4}. Which of two adjacent classes receives a cycle exactly on their common limit is left open (as the property does). Totals of re-binning compared with 1e-12 relative tolerance because overlap fractions are float constants. Two defects found by this check were repaired (73f5732, ee39cfd).",
   design="6 C14"),
 "C12": dict(
   text="Bounded exhaustive symbolic check of the real mean-stress transformation code (HaighDiagram.transform, _SegmentTransformer, fkm_goodman, five_segment_correction, collective and matrix accessors): amplitude > 0 and mean symbolic, so every sector of the Haigh plane and every border (R = 0, +-inf, 1, R12, R23) is a path. FKM-Goodman result == geometric iso-damage walk oracle; for FKM-Goodman and five-segment diagrams: T_R2 o T_R1 == T_R2, idempotence, cycle on the target ray unchanged, non-decreasing in amplitude; plain function == collective accessor (range/mean and from/to); matrix accessor conserves the symbolic cycle counts and places every class in the result class that contains its transformed range (from/to, range/mean, rows shuffled / sparse, and with a further node index level, per node).",
   note="Mean stress sensitivities and R_goal are concrete and enumerated (5-6 (M,M2) pairs incl. M2 = 0 and M2 = M, 2-3 five-segment sets, 10 targets incl. -inf and R > 1); restricted to cycles whose iso-damage amplitude stays positive. Value claims carry 1e-12 relative tolerance. Floats as reals; float constants stand for the simplest rational that rounds to them.",
   design="6 C12"),
 "C11": dict(
   text="Bounded exhaustive symbolic check of Fatigue.damage, the Miner elementary/Haibach lifetime multiples, solidity and gassner_cycles on symbolic collectives: amplitudes > 0, cycle counts >= 0 (zero allowed: empty classes at top, bottom, in between are paths), SD, ND > 0 symbolic, slope k_1 a concrete integer so that all quantities are rational functions. Additivity, proportionality to the counts, member-order independence, original <= Haibach <= elementary per class; the collective scaled to the predicted Gassner cycles has damage sum one under the corresponding rule (decided as a rational-function identity); effective damage sum in [0.3, 1].",
   note="Bounds: 1..3 (quick) / 1..4 (thorough) classes, k_1 in {3,5} / {3,4,5}, failure probability 0.5, TN=TS=1. np/pd facades keep object dtype inside woehlercurve/miner/solidity (self-tested against numpy). x**(1/4) over-approximated by an arbitrary positive real. Non-integer slopes and IntervalIndex histograms are outside.",
   design="6 C11"),
 "C16": dict(
   text="Symbolic check of the closed-form identities on the real code: Hooke's law 1D / plane stress / plane strain / 3D with symbolic E > 0, -1 < nu < 1/2 and symbolic components: stress(strain(.)) and strain(stress(.)) are the identity, plane strain == 3D at zero out-of-plane strain, plane stress == 3D at zero out-of-plane stress, G and K follow from E and nu (decided as rational-function identities); Ramberg-Osgood with x**y as an uninterpreted function: strain is odd, the Masing range function is the doubled curve, the lower hysteresis branch meets the curve at the reversal point and raises above it, tangential modulus is the reciprocal of the compliance; true stress s(1+e) divided by (1+e) gives the engineering stress back (scalar, array, asked twice with the same arrays) and the true fracture stress times the remaining cross section gives the force back.",
   note="Claimed in part: the Newton inverses stress()/delta_stress() (convergence of a float iteration), 'compliance is the derivative' (calculus), strict monotonicity of the real power function and the logarithmic true strain (transcendental) are outside. No loop bound is involved. np facade in rambgood (self-tested).",
   design="6 C16"),
 "C17": dict(
   text="Symbolic check of the real equistress functions with numpy.linalg.eigvalsh replaced by its contract: tresca = l3 - l1, max/min principal, absolute maximum principal = eigenvalue of largest magnitude with its sign, signed variants = documented sign (+1 for a zero indicator) times the unsigned value, mises**2 = half the sum of squared principal differences and mises >= 0 (from the component formula under the Vieta relations, sqrt exact), mises <= tresca <= 2/sqrt(3) mises, positive scaling and rotation invariance of mises about each coordinate axis with symbolic (cos, sin), accessor == functions row by row.",
   note="Claimed in part: rotation invariance / scaling of the eigenvalue-based quantities would be inherited from the stub and LAPACK itself is not the subject. Eigenvalue-only clauses use a free ordered spectrum (over-approximation), the Mises/Tresca bounds use the separately decided mises definition as a lemma. 1 row (definitions) / 2 rows (accessor).",
   design="6 C17"),
 "C04": dict(
   text="Bounded exhaustive symbolic check of the real FKMNonlinearDetector (first and second HCM pass incl. the junction logic, find_turns, sample tail, recorder) on symbolic integer load sequences against the rainflow cycles of the periodic reversal sequence started at its largest absolute load: multiset of second-pass (loads_min, loads_max) == oracle cycles, every second-pass hysteresis closed, half-counted hystereses only in the first pass and symmetric about zero, and invariance of the second-pass cycles under one inserted non-reversal sample at every position incl. the end/junction.",
   note="Bound: sequence length 2..5 (quick) / 2..6 (thorough); refinement base length 2..3 / 2..4. Integer loads (tolerance comparisons exact, rewritten to integer arithmetic). Linear stub law (counting depends on loads only). Two junction defects found by this check were repaired in /repo (b090510, 375d6ae); no region is excluded. Cases with int8 input arrays (loads up to +-100) are decided through the concrete replay of every path witness on the real code (integer wrap-around is not part of the object-dtype execution).",
   design="6 C04"),
 "C05": dict(
   text="Bounded exhaustive symbolic check of the HCM stress-strain bookkeeping of the real FKMNonlinearDetector / FKMNonlinearRecorder against an independent scalar implementation of the HCM case analysis (primary branch, Masing secondary branches from the reversal point, Memory 1-3, running strain extremes, pass numbers): every column of recorder.collective and the visited strain values; multi-point series (non-contiguous node ids, proportional loads) give every point its single-point rows, also when the history is fed in several process() calls with borders anywhere (any samples, compared with the point processed alone through the same calls); negated loads mirror all stresses and strains.",
   note="Bound: 2 and 4 reversals per period (proper reversal sequences incl. start from zero and junction; everything else is C04), 1..3 points with factors 1/2, 2, 3. Notch law = odd extensions of positive increasing uninterpreted functions (contract stub); concrete replays use an analytic law. Integer loads. The oracle was written from the same reading of the guideline as the code. Multi-point running strain extremes are not compared (decided on the first node; equality per node needs Masing/convexity). Chunked multi-point cases: 4 (quick) / 4..5 (thorough) integer samples, one or two chunk borders, load steps numbered consecutively across the calls; both HCM passes on 3 (quick) / 3..4 (thorough) arbitrary samples with load step labels in any order. Histories that re-use load step labels across calls are outside (the original tree fails on them in several places, see DESIGN.md section 8). A defect found by this check was repaired (be8c19e, follow-up 0421c51).",
   design="6 C05"),
 "C08": dict(
   text="Symbolic check of the real WoehlerCurve accessor in log-domain arithmetic (every positive quantity is 10**e with e a real symbol, so the power laws are linear arithmetic on exponents): cycles/load mutual inverses across the knee and for k_2 = inf, knee value, slopes k_1 above and k_2 below the endurance limit, non-increasing in load, Miner variants change only k_2 (also for curves given for another failure probability: every other key incl. failure_probability kept, cycles above the knee equal the original's) and leave the original untouched, cycles grow with the failure probability, N_90/N_10 = TN and SD_90/SD_10 = TS, group law and identity of transform_to_failure_probability, std <-> scatter range inverses with T = 10**(2 z_0.9 s), array and Series input == scalar calls.",
   note="SD, ND, TN, TS, load, cycles symbolic in [1e-12, 1e12] (scatter in [1, 1e3]); slopes k_1 in {3,5,7.5}, k_2 in {k_1, 2k_1-1, k_1+2, inf} (thorough additionally symbolic 1 < k_1 <= 20, k_1 <= k_2 <= k_1+20) and failure probabilities concrete; scipy.stats.norm.ppf runs for real. Clauses marked ~ carry a relative tolerance of 1e-9 on the exponent (the code uses fl(-1/k) and the literal 0.39015207303618954). np/pd facades (self-tested). Indexed curves (broadcasting) are C13.",
   design="6 C08"),
 "C09": dict(
   text="Symbolic check of the encodable clauses: P_RAM / P_RAJ component Woehler curves (log domain): calc_N and calc_P mutual inverses in the finite range, continuity at N = 1e3 and at the endurance knee, strictly decreasing, infinite at and below the endurance value; P_RAM damage parameter == sqrt((S_a + k S_m) eps_a E) with the guideline's mean-stress factor and zero for a negative product (sqrt exact); DamageCalculatorPRAM lifetime (sequence repetitions and cycles, infinite-life flag) == literal accumulation of first-pass damage once and second-pass damage repeatedly, half hystereses half, early failure by running sum, for every closed/half x pass pattern up to the bound; gamma_L of the normal / log-normal / blanket load safety accessors == guideline formulas.",
   note="Claimed in part: compute_beta (root search on |Phi(x)-P_A|), the P_RAJ damage parameter (cos, real powers, Newton) and DamageCalculatorPRAJ are outside. Curve exponents are the constants of three material groups; R_m in {400,600,1200}; P_RAM tables with float and with integer-typed stress columns and integer cycle numbers for the curves (dtype effects show in the concrete replay of every path witness on the real code); hysteresis tables may contain P_RAM = 0 rows; x**y in the damage calculator is an arbitrary positive number depending on (x,y) (represented as 1/t, t > 0 fresh); 1..3 (quick) / 1..5 (thorough) hystereses.",
   design="6 C09"),
 "C18": dict(
   text="Bounded exhaustive symbolic check of the one encodable clause: FatigueData zone logic on symbolic loads and cycles for every fracture-flag pattern: finite and infinite zone are disjoint and cover all tests, every infinite-zone load <= reported transition <= every finite-zone load, all tests in the finite zone without run-outs, zone membership and transition invariant under row permutation; multiplying all loads by a symbolic c > 0 multiplies the transition (the elementary endurance estimate) by c and keeps the zones, multiplying all cycle numbers changes neither.",
   note="Claimed for this clause only: equivariance, exact recovery and likelihood ordering of the Elementary / Probit / MaxLike analyzers are outside (least squares, scipy.optimize.fmin, norm.ppf on symbolic data have no encoding). 2..3 (quick) / 2..5 (thorough) test rows; admissible data (two distinct fracture loads and cycle numbers). pandas.Series.unique gets an object-dtype fall-back.",
   design="6 C18"),
 "C19": dict(
   text="Bounded symbolic check of two clauses. Hot spots: HotSpot.calc on concrete small meshes (shared nodes, disconnected, chains, id gaps, shuffled rows) with symbolic pairwise distinct field values of any sign against union-find components: exactly the entries >= fraction * maximum are labelled, labels are the connected components under shared-node / shared-element adjacency, numbered by descending peak. Gradients of a linear field f = g.x + f0 with symbolic g and f0: the shape-function operator Gradient3D returns g at every node of a tetrahedron with fully symbolic node positions (quick), of two tetrahedra sharing a face and of a hexahedron in right- and left-handed node order (concrete perturbed positions in quick, fully symbolic positions - 15 / 24 symbols - in thorough), decided as rational-function identities; the least-squares operator Gradient returns g at every node for node ids 1..N, permuted, with gaps, with gaps and unordered, and at the apex of a tetrahedron over a flat base; the same Gradient3D operator object asked again after the mesh was stretched in place answers for the current mesh.",
   note="Claimed for these clauses: mesh mapping (Qhull) and surface detection (arccos) are outside. Contract stubs in the symbolic run: numpy.linalg.inv / det of a 3x3 matrix by adjugate and determinant (non-degenerate elements assumed: Jacobian regular at every corner), numpy.linalg.lstsq for a concrete matrix and symbolic right-hand side by the normal equations in exact rationals. Hot-spot meshes with 4..6 entries enumerated, fractions 0.5 and 0.9. A defect found by this check was repaired (node ids used as positions in Gradient).",
   design="6 C19"),
}
NA = {
 "C06": "subject is convergence/accuracy of scipy Newton/secant iterations on equations with real-exponent powers: no SMT theory for x**y, cos, log or for float iteration convergence; stubbing the power removes the subject",
 "C10": "end-to-end pipeline through Newton-solved notch laws, per-row scipy newton for P_RAJ, logspace class search and root search for beta: transcendental at every stage; its encodable ingredients are decided under C04, C05, C07, C09",
 "C13": "broadcasting is pandas align/join/get_indexer on index labels executed by compiled hash joins over concrete keys; only payload could be symbolic, so the deciding step would be enumeration of layouts, not a solver verdict",
 "C15": "norm.cdf/norm.pdf and adaptive QUADPACK quadrature: transcendental integrands and a Fortran integrator, nothing to encode",
 "C20": "HDF5 I/O through h5py (C library and file system): round trip and roll-back are effects of that library, out of reach of symbolic execution of Python terms",
}
PENDING = "check designed (DESIGN.md section 6) but not yet built in this revision"
ALL = ["C%02d" % i for i in range(1, 21)]

def main():
    checks = []
    for pid in ALL:
        if pid in CHECKS:
            c = CHECKS[pid]
            checks.append({
                "property_id": pid,
                "quick_cmd": "./check %s --tier quick" % pid,
                "thorough_cmd": "./check %s --tier thorough" % pid,
                "evidence_file": "evidence/%s.json" % pid,
                "replay_cmd_template": "./check %s --replay {path}" % pid,
                "engine": "pvx",
                "level_claimed": {"category": "model_checking", "text": c["text"], "design_ref": "DESIGN.md section " + c["design"]},
                "level_note": c["note"],
                "technique": c.get("technique", TECH),
            })
    na = [{"property_id": p, "reason": NA.get(p, PENDING)} for p in ALL if p not in CHECKS]
    m = {
     "version": 1,
     "setup_cmd": "./setup.sh",
     "hooks": {"guard": "PYLIFE_VERIF",
               "enable": "no source hooks are needed: all instrumentation is applied from outside by patching module namespaces inside the checking process; checks import pylife from /repo/src (working tree)",
               "baseline_off_cmd": "cd /repo && /venv/bin/python -m pytest -ra -q -p no:cacheprovider --timeout=900 --continue-on-collection-errors",
               "source_commits": [], "add_only": True},
     "engines": [{"name": "pvx", "path": "pvx/", "serves_properties": sorted(CHECKS),
                  "kind_free_text": "re-execution dynamic symbolic execution of the real pylife/numpy/pandas code on z3 terms carried in dtype=object arrays; exhaustive depth-first path partition with push/pop; claims discharged as path_condition AND NOT claim; counterexamples and per-path witnesses replayed on the unpatched compiled code"}],
     "checks": checks,
     "not_applicable": na,
     "notes": "Exit codes of ./check: 0 held, 1 VIOLATION (reproduced on the real code), 3 inconclusive/harness error (never reported as success). Known findings: known_findings.json. See DESIGN.md.",
    }
    with open(os.path.join(HERE, "MANIFEST.json"), "w") as f:
        json.dump(m, f, indent=1)
        f.write("\n")

if __name__ == "__main__":
    main()
