#!/bin/bash
# runs every registered quick (or thorough) check once, sequentially; prints exit codes and wall times
cd "$(dirname "$0")/.." || exit 3
TIER=${1:-quick}
for p in C01 C02 C03 C04 C05 C07 C08 C09 C11 C12 C14 C16 C17 C18 C19; do
  S=$(date +%s)
  ./check $p --tier $TIER > /tmp/runall_$p.log 2>&1
  RC=$?
  E=$(date +%s)
  echo "$p $TIER exit=$RC secs=$((E-S)) $(grep -c '^VIOLATION' /tmp/runall_$p.log) violations $(grep -c '^KNOWN-FINDING' /tmp/runall_$p.log) known"
done
