#!/usr/bin/env python3
"""Round 6: copies the verified seeded defects from /tmp/seed6_<P>/SEED/1 into /verif/seeded/<P>-<next free id>/ with a
meta.json.  usage: mkseeded6.py <P> <first confrontation> [<strengthening>]   (final confrontation log: /tmp/seedruns/r6_<P>_1_quick.log)"""
import json, os, re, shutil, glob, sys
p, first = sys.argv[1], sys.argv[2]
strengthened = sys.argv[3] if len(sys.argv) > 3 else None
n = max(int(d.rsplit("-", 1)[1]) for d in glob.glob("/verif/seeded/%s-*" % p)) + 1
sid = "%s-%d" % (p, n)
src = "/tmp/seed6_%s/SEED/1" % p
dst = "/verif/seeded/%s" % sid
os.makedirs(dst, exist_ok=True)
shutil.copy(src + "/patch.diff", dst + "/patch.diff")
shutil.copy(src + "/demo.py", dst + "/demo.py")
notes = open(src + "/notes.txt").read()
res = open("/tmp/seedlogs/r6_%s_1.result" % p).read().split("\n")
fin = [l.split() for l in open("/tmp/seedruns/summary.txt") if l.startswith("r6_%s 1 " % p)][-1]
out = open("/tmp/seedruns/r6_%s_1_quick.log" % p).read()
meta = {
    "seed": sid, "property": p, "round": 6,
    "what": " ".join(notes.strip().split("\n")[:2])[:400],
    "author": "fresh sub-agent that saw only the property text, the list of earlier seed topics to avoid, and its own scratch worktree",
    "verified_by_me": {
        "worktree": "/tmp/seed6_%s (git worktree of /repo, removed afterwards)" % p,
        "demo_without_patch_exit": int(res[0].split("=")[1]), "demo_with_patch_exit": int(res[1].split("=")[1]),
        "full_suite_with_patch": res[2].strip(), "baseline": "1480 passed, 9 failed on the unchanged tree (the same 9)"},
    "check": {"command": "git -C /repo apply seeded/%s/patch.diff && ./check %s --tier quick ; git -C /repo checkout -- ." % (sid, p),
              "first_confrontation": first, "harness_strengthened": strengthened,
              "final_exit_code": int(fin[3].split("=")[1]), "final_violation_lines": int(fin[5]),
              "violated_claims": sorted(set(re.findall(r"violated claim '([^']+)'", out)))},
    "notes": notes}
json.dump(meta, open(dst + "/meta.json", "w"), indent=1)
print(sid, meta["check"]["final_exit_code"], meta["check"]["violated_claims"][:3])
