import sys, json
from pvx import run
H = run._load(sys.argv[1]); 
if hasattr(H,'prepare'): H.prepare('quick')
cn = sys.argv[2] if len(sys.argv)>2 and sys.argv[2]!='-' else None
if cn:
    c = [c for c in H.CANARIES if c['name']==cn][0]; cases = c['cases'] if not callable(c['cases']) else c['cases']('quick')
else:
    cases = [json.loads(sys.argv[3])]
for case in cases:
    r = run.run_task({"harness": sys.argv[1], "case": case, "opts": {"timeout_ms":10000,"task_budget_s":600,"witness_every":1}, "findings_open": [], "canary": cn})
    print(json.dumps({k:v for k,v in r.items() if k not in('signatures',)}, indent=1, default=str)[:6000])
