#!/usr/bin/env python3
"""Round 3: copies the verified seeded defects from /tmp/seed3_<P>/SEED/<k> into /verif/seeded/<P>-<k+2>/ with a meta.json
(final confrontation logs in /tmp/finalseeds)."""
import json, os, re, shutil
FIRST = {
 "C01-3": "VIOLATION", "C01-4": "VIOLATION",
 "C02-3": "missed by ./check C02 (one-piece processing); VIOLATION by ./check C01", "C02-4": "missed by ./check C02 (one-piece processing); VIOLATION by ./check C01",
 "C03-3": "VIOLATION", "C03-4": "missed by ./check C03 (one-piece processing); VIOLATION by ./check C01",
 "C04-3": "VIOLATION", "C04-4": "VIOLATION",
 "C05-3": "missed (exit 0; quick tier had multi-point cases with 2 reversals only)", "C05-4": "missed (exit 0; no case fed the history in several process() calls)",
 "C07-3": "VIOLATION", "C07-4": "VIOLATION",
 "C09-3": "missed (exit 0; integer-typed columns are invisible to object-dtype execution)", "C09-4": "VIOLATION",
 "C11-3": "VIOLATION", "C11-4": "missed (exit 0; every Miner object was used for one call)",
 "C12-3": "missed (exit 0; M2 = 0 was in the thorough tier only)", "C12-4": "VIOLATION",
 "C14-3": "missed (exit 0; histogram clauses were declared outside)", "C14-4": "missed (exit 0; histogram clauses were declared outside)"}
STRENGTHENED = {
 "C02-3": "C02 also feeds every signal in two pieces (every border, n <= 6 / 7)", "C02-4": "C02 also feeds every signal in two pieces (every border, n <= 6 / 7)",
 "C03-4": "refinement relation also with the refined signal fed in two pieces at every border (base 3..4 / 3..5); also reported by ./check C01 and ./check C02",
 "C05-3": "order type 'deferred last reversal closes the inner hysteresis' of the 4-reversal multi-point family added to the quick tier",
 "C05-4": "new clause: several points at once == each alone with the history fed in several process() calls; found a genuine defect on the unchanged tree (fixed, be8c19e); the seed patch was rebased onto the fix (patch_orig.diff = as written)",
 "C09-3": "integer-typed P_RAM tables; a claim that fails in the concrete replay of a path witness on the real code is a VIOLATION",
 "C11-4": "second gassner_cycles / lifetime_multiple call on the same object must give the same numbers and leave the curve untouched",
 "C12-3": "(M, M2 = 0) in the quick tier",
 "C14-3": "histogram clauses through the real numpy code, incl. collectives with repeated index labels", "C14-4": "histogram clauses through the real numpy code, incl. a number of bins"}
SUMM = [l.split() for l in open("/tmp/finalseeds/summary.txt") if l.startswith("r3_")]
def final(tag):
    for f in reversed(SUMM):
        if f[0] == tag:
            return f[1].split("=")[1], int(f[2].split("=")[1]), int(f[4].split("=")[1])
    return None
for p in ("C01", "C02", "C03", "C04", "C05", "C07", "C09", "C11", "C12", "C14"):
    for k in (1, 2):
        sid = "%s-%d" % (p, k + 2)
        src = "/tmp/seed3_%s/SEED/%d" % (p, k)
        dst = "/verif/seeded/%s" % sid
        os.makedirs(dst, exist_ok=True)
        for f in ("patch.diff", "demo.py", "patch_orig.diff"):
            if os.path.exists(src + "/" + f):
                shutil.copy(src + "/" + f, dst + "/" + f)
        notes = open(src + "/notes.txt").read()
        res = open("/tmp/seedlogs/r3_%s_%d.result" % (p, k)).read().split("\n")
        checks = {}
        for tag in ("r3_%s_%d" % (p, k), "r3_%s_%d_viaC01" % (p, k), "r3_%s_%d_viaC02" % (p, k)):
            fin = final(tag)
            if fin:
                out = open("/tmp/finalseeds/%s.log" % tag).read()
                checks["./check %s --tier quick" % fin[0]] = {"exit_code": fin[1], "violation_lines": fin[2],
                                                              "violated_claims": sorted(set(re.findall(r"violated claim '([^']+)'", out)))}
        meta = {
            "seed": sid, "property": p, "round": 3,
            "what": " ".join(notes.strip().split("\n")[:2])[:400],
            "author": "fresh sub-agent that saw only the property text, the list of earlier seed topics to avoid, and its own scratch worktree",
            "verified_by_me": {
                "worktree": "/tmp/seed3_%s (git worktree of /repo, removed afterwards)" % p,
                "demo_without_patch_exit": int(res[0].split("=")[1]), "demo_with_patch_exit": int(res[1].split("=")[1]),
                "full_suite_with_patch": res[2].strip(), "baseline": "1480 passed, 9 failed on the unchanged tree (the same 9)"},
            "check": {"command": "git -C /repo apply seeded/%s/patch.diff && ./check <id> --tier quick ; git -C /repo checkout -- ." % sid,
                      "first_confrontation": FIRST[sid], "harness_strengthened": STRENGTHENED.get(sid), "final": checks},
            "notes": notes}
        json.dump(meta, open(dst + "/meta.json", "w"), indent=1)
        print(sid, {k_: v["exit_code"] for k_, v in checks.items()})
