#!/usr/bin/env python3
"""Solver cross-check: re-run a sample of the queries pvx discharged (dumped as SMT-LIB2) with other solvers.

usage: tools/crosscheck.py <property> '<case json>' [max]
Runs the case with PVX_DUMP_DIR set, then feeds every dumped query to the cvc5 binary and to the distribution's
z3 4.8.12 binary and compares the verdicts with the one z3 5.1 (python API) gave.  A disagreement is a harness error.
"""
import glob, json, os, shutil, subprocess, sys, tempfile
sys.path.insert(0, os.path.dirname(os.path.dirname(os.path.abspath(__file__))))
sys.set_int_max_str_digits(0)
prop, case = sys.argv[1].lower(), json.loads(sys.argv[2])
mx = sys.argv[3] if len(sys.argv) > 3 else "150"
d = tempfile.mkdtemp(prefix="pvx_dump_")
os.environ["PVX_DUMP_DIR"], os.environ["PVX_DUMP_MAX"] = d, mx
from pvx import run
H = run._load(prop)
if hasattr(H, "prepare"):
    H.prepare("quick")
r = run.run_task({"harness": prop, "case": case, "opts": {"timeout_ms": 10000, "task_budget_s": 600, "witness_every": 0}, "findings_open": []})
files = sorted(glob.glob(d + "/*.smt2"))
res = {"cvc5": {"agree": 0, "disagree": 0, "unknown": 0}, "z3-4.8.12": {"agree": 0, "disagree": 0, "unknown": 0}}
bad = []
for f in files:
    exp = f.rsplit("_", 1)[1][:-5]
    for name, cmd in (("cvc5", ["cvc5", "--tlimit=20000", f]), ("z3-4.8.12", ["/usr/bin/z3", "-T:20", f])):
        try:
            out = subprocess.run(cmd, capture_output=True, text=True, timeout=40).stdout.strip().split("\n")[0]
        except subprocess.TimeoutExpired:
            out = "timeout"
        if out == exp:
            res[name]["agree"] += 1
        elif out in ("sat", "unsat"):
            res[name]["disagree"] += 1
            bad.append((name, f, exp, out))
        else:
            res[name]["unknown"] += 1
print(json.dumps({"property": prop, "case": case, "queries": len(files), "paths": r.get("stats", {}).get("paths"), "results": res}, indent=1))
for b in bad[:5]:
    print("DISAGREEMENT", b)
    shutil.copy(b[1], "/tmp/")
shutil.rmtree(d, ignore_errors=True)
sys.exit(3 if bad else 0)
