#!/usr/bin/env python3
"""Round 4: copies the verified seeded defects from /tmp/seed4_<P>/SEED/<k> into /verif/seeded/<P>-<next free id>/ with a
meta.json (final confrontation logs in /tmp/finalseeds4)."""
import json, os, re, shutil, glob
IDS = {"C07": (5, 6), "C08": (3, 4), "C11": (5, 6), "C12": (5, 6), "C14": (5, 6), "C16": (3, 4), "C17": (3, 4), "C19": (3, 4)}
FIRST = {
 "C07-5": "exit 3 (np.copysign has no object loop: the symbolic run raised, not reproducible)", "C07-6": "missed (exit 0; one look-up per Binned object)",
 "C08-3": "VIOLATION", "C08-4": "VIOLATION",
 "C11-5": "VIOLATION", "C11-6": "missed (exit 0; the collective was never edited between two calls)",
 "C12-5": "VIOLATION", "C12-6": "missed (exit 0; parameter Series only, no multi-element DataFrame)",
 "C14-5": "exit 3 (np.asarray(dtype=float64) in recorders without facade)", "C14-6": "missed (exit 0; float counts only)",
 "C16-3": "VIOLATION", "C16-4": "missed (exit 0; true stress/strain was declared outside)",
 "C17-3": "missed (exit 0; dtype effects invisible to object execution, eigenvalue cases had no witness replay)",
 "C17-4": "exit 3 (harness indexed the stub's empty call list; np.hypot has no object loop)",
 "C19-3": "exit 3 (gradient clause had just been added; np.linalg.det missing in the stub)", "C19-4": "VIOLATION"}
STRENGTHENED = {
 "C07-5": "np facade (with copysign) patched into the notch-law module", "C07-6": "second per-point look-up on the same Binned object must equal fresh look-ups",
 "C11-6": "same Miner and collective objects asked again after the caller's frame was edited in place == fresh objects",
 "C12-6": "five-segment parameter DataFrames (two elements sharing R12 or R23) against the plain function per element",
 "C14-5": "np facade in recorders; histogram and collective read between two recordings", "C14-6": "re-binning of integer-typed counts (verdict by witness replay)",
 "C16-4": "algebraic part of the true-conversion clause (true_stress inverse, same arrays asked twice, true fracture stress)",
 "C17-3": "integer-typed first component with fractional other components, replayed on the real code for every path",
 "C17-4": "spectrum requested from the stub if the code under test did not ask for it; hypot facade",
 "C19-3": "det in the linalg stub; left-handed hexahedron case"}
SUMM = [l.split() for l in open("/tmp/finalseeds4/summary.txt") if l.startswith("r4_")]
for p, ids in IDS.items():
    for k, n in zip((1, 2), ids):
        sid = "%s-%d" % (p, n)
        src = "/tmp/seed4_%s/SEED/%d" % (p, k)
        dst = "/verif/seeded/%s" % sid
        os.makedirs(dst, exist_ok=True)
        shutil.copy(src + "/patch.diff", dst + "/patch.diff")
        shutil.copy(src + "/demo.py", dst + "/demo.py")
        notes = open(src + "/notes.txt").read()
        res = open("/tmp/seedlogs/r4_%s_%d.result" % (p, k)).read().split("\n")
        fin = [f for f in SUMM if f[0] == "r4_%s_%d" % (p, k)][-1]
        out = open("/tmp/finalseeds4/r4_%s_%d.log" % (p, k)).read()
        meta = {
            "seed": sid, "property": p, "round": 4,
            "what": " ".join(notes.strip().split("\n")[:2])[:400],
            "author": "fresh sub-agent that saw only the property text, the list of earlier seed topics to avoid, and its own scratch worktree",
            "verified_by_me": {
                "worktree": "/tmp/seed4_%s (git worktree of /repo, removed afterwards)" % p,
                "demo_without_patch_exit": int(res[0].split("=")[1]), "demo_with_patch_exit": int(res[1].split("=")[1]),
                "full_suite_with_patch": res[2].strip(), "baseline": "1480 passed, 9 failed on the unchanged tree (the same 9)"},
            "check": {"command": "git -C /repo apply seeded/%s/patch.diff && ./check %s --tier quick ; git -C /repo checkout -- ." % (sid, p),
                      "first_confrontation": FIRST[sid], "harness_strengthened": STRENGTHENED.get(sid),
                      "final_exit_code": int(fin[2].split("=")[1]), "final_violation_lines": int(fin[4].split("=")[1]),
                      "violated_claims": sorted(set(re.findall(r"violated claim '([^']+)'", out)))},
            "notes": notes}
        json.dump(meta, open(dst + "/meta.json", "w"), indent=1)
        print(sid, meta["check"]["final_exit_code"], meta["check"]["violated_claims"][:3])
