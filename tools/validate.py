import json, sys, glob, jsonschema
m = json.load(open('/verif/MANIFEST.json'))
jsonschema.validate(m, json.load(open('/root/.vp/MANIFEST.schema.json')))
es = json.load(open('/root/.vp/EVIDENCE.schema.json'))
for f in sorted(glob.glob('/verif/evidence/*.json')):
    jsonschema.validate(json.load(open(f)), es); print('ok', f)
ids = [json.loads(l)['id'] for l in open('/verif/properties.jsonl')]
claimed = [c['property_id'] for c in m['checks']]; na = [c['property_id'] for c in m.get('not_applicable', [])]
print('claimed', claimed); print('na', na); print('missing', [i for i in ids if i not in claimed and i not in na])
