import sys, json, time, cProfile, pstats
from pvx import run
H = run._load(sys.argv[1])
if hasattr(H,'prepare'): H.prepare('quick')
case = json.loads(sys.argv[2])
pr = cProfile.Profile(); pr.enable()
r = run.run_task({"harness": sys.argv[1], "case": case, "opts": {"timeout_ms":10000,"task_budget_s":int(sys.argv[3]) if len(sys.argv)>3 else 60,"witness_every":1}, "findings_open": []})
pr.disable()
print(json.dumps({k:v for k,v in r.items() if k in('stats','errors','wall_s','complete','violations')}, indent=1, default=str)[:3000])
pstats.Stats(pr).sort_stats('cumulative').print_stats(25)
