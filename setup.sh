#!/bin/sh
# Offline bootstrap of the checking environment: an overlay venv on top of /venv
# (which holds pylife's own dependencies) plus z3-solver from the local wheelhouse.
set -e
cd "$(dirname "$0")"
V=.venv
if [ -x "$V/bin/python" ] && "$V/bin/python" -c 'import z3, numpy, pandas, pylife' 2>/dev/null; then
    exit 0
fi
rm -rf "$V"
/venv/bin/python -m venv "$V"
SP=$("$V/bin/python" -c 'import sysconfig; print(sysconfig.get_paths()["purelib"])')
printf "import site; site.addsitedir('/venv/lib/python3.12/site-packages')\n" > "$SP/_overlay.pth"
PIP_NO_INDEX=1 "$V/bin/python" -m pip install -q --no-index --find-links /opt/veriftools/wheels z3-solver jsonschema
"$V/bin/python" -c 'import z3, numpy, pandas, pylife, jsonschema; print("pvx env ok: z3", z3.get_version_string())'
